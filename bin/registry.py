"""Registry of checks: which harnesses decide which property, per tier and block geometry.

harness patterns are fnmatch patterns on the harness function name; `filters` are the substring
filters handed to `cargo kani --only-codegen --harness` so that only this check's harnesses are
lowered to goto-programs.
"""

STREAM_FUNCS = [
    "recordlog::writer::RecordWriter::write_record", "recordlog::writer::frame_type",
    "frame::writer::FrameWriter::{create,write_frame,max_writable_frame_length}",
    "frame::header::Header::{for_payload,serialize,deserialize,check,len,frame_type}",
    "frame::header::FrameType::{from_u8,to_u8,is_first_frame_of_record,is_last_frame_of_record}",
    "frame::reader::FrameReader::{open,read_frame,get_frame_header,go_to_next_block_if_necessary}",
    "recordlog::reader::RecordReader::{open,go_next,read_record,record}",
]

CRC_ASSUMPTION = (
    "S-crc: frame::header::crc32 (private; called by both Header::for_payload and Header::check) is replaced "
    "by a checksum oracle K(frame_type, len) with a non-zero low byte; for frames the harness has damaged the "
    "oracle returns a value different from the stored one (ideal-checksum reading of 'up to a CRC-32 "
    "collision'). The real crc32fast is not executed.")
DEV_ASSUMPTION = (
    "in-memory block devices ArrW/ArrR/CurW (harness/common.rs) stand for RollingWriter/RollingReader: "
    "zero-prefilled, next_block never fails, a single stream without file boundaries")

HOOK_COMMITS = ["51e6703"]

NA_GLUE = ("the deciding mechanism lives in MultiRecordLog / RollingReader / RollingWriter / Directory over std::fs, std::path, "
           "core::fmt, HashMap and BTreeSet; symbolic execution of those std bodies does not terminate under CBMC in this "
           "sandbox (DESIGN.md section 3, probes B1-B7) and replacing them would verify a re-hosted copy, not the repository")

NOT_APPLICABLE = {
    "C01": "restart == replay of the WAL by open_with_prefs over files, roll-over and GC: " + NA_GLUE,
    "C02": "pending: torn-write check under construction",
    "C03": "the property is the order of flush / sync_data / sync_directory / remove_file calls issued by multi_record_log.rs and rolling/directory.rs: " + NA_GLUE,
    "C04": "pending",
    "C05": "pending",
    "C06": "pending",
    "C08": "pending",
    "C09": "pending",
    "C10": "pending",
    "C11": "the failing retry loop is the `let Ok(..) else continue` of open_with_prefs, which cannot be executed without RollingReader: " + NA_GLUE,
    "C12": "pending",
    "C13": "'nothing was written and the outcome says 0' is a statement about MultiRecordLog::{create_queue,delete_queue,append_records,truncate} and the writer's I/O: " + NA_GLUE,
    "C14": "lock-step runs of MultiRecordLog under different policies (and Instant::now): " + NA_GLUE,
    "C15": "pending",
    "C16": "pending",
    "C17": "pending",
    "C18": "isolation is delivered by the HashMap<String, MemQueue> lookups and by the GC glue: " + NA_GLUE,
}

CHECKS = {
    "C07": {
        "design_ref": "DESIGN.md section 4, C07",
        "technique": "bounded model checking of the compiled Rust (Kani/CBMC): case-split lengths, symbolic payload bytes, SAT",
        "level_text": ("Bounded model checking of the real writer/reader code: for every (alignment x length x follower) of the "
                       "stated small geometry and every payload byte value, what RecordWriter writes is what RecordReader "
                       "returns, in order; split/padding arithmetic additionally decided at the real 32 KiB block size with "
                       "symbolic cursor and length. Bounded, not a proof: entries <= 3 blocks, block sizes 16/32 on the data path."),
        "level_note": ("trusted: rustc MIR + kani-compiler lowering, CBMC, CaDiCaL; the checksum oracle stub (real CRC-32 not executed); "
                       "array-backed block devices instead of the rolling files; file roll-over is outside"),
        "filters": ["c07_", "c15_real"],
        "quick": {
            "harnesses": [("16", "c07_rt_q*"), ("real", "c15_real_q*"), ("real", "c15_real_frame_q")],
            "jobs": 14, "timeout": 900,
        },
        "thorough": {
            "harnesses": [("16", "c07_rt_q*"), ("16", "c07_rt_t*"), ("32", "c07_rt_t32_*"),
                          ("real", "c15_real_*")],
            "jobs": 16, "timeout": 3000, "solvers": ["cadical"],
        },
        "rule": ("case = (l0, l1, l2): three entries written back to back through the real RecordWriter into "
                 "zero-prefilled blocks and read back through the real RecordReader; l0 sets the block alignment "
                 "of entry 1, l1 is the length under test, l2 the follower. Lengths are concrete loop variables "
                 "(path enumeration inside the model checker, complete by the unwinding assertions), payload "
                 "bytes are symbolic (decided by SAT). A case is non-trivial when entry 1 spans >= 2 frames, "
                 "starts behind padding, or ends exactly at a block end. Cases are counted from CBMC's symex log "
                 "(mark_case / mark_nontrivial). Real geometry: start cursor and length symbolic."),
        "samples": [
            "c07_rt_q3 (B=16): l0 in 9..=11 x l1 in {0,1,8,9,10,18,32,48} x l2=1, 3*(B+...) payload bytes symbolic",
            "c07_rt_qf (B=16): l0 in {2,3,9} (remaining = H, H-1 -> padding, 0) x l1 in {0,9,48} x l2 in {0,16}",
            "c15_real_q (B=32768): start cursor symbolic < 4B, entry length symbolic <= 3B",
        ],
        "functions": STREAM_FUNCS,
        "bounds": {
            "quick": {"B": "16 (data path), 32768 (arithmetic)", "entries": 3, "l0": "0..=B+H", "l1": "8 edge lengths up to 3B", "l2": "1 (+{0,B} at 3 alignments)", "blocks": "<= 12", "real_geometry": "start < 4B, len <= 3B"},
            "thorough": {"B": "16 full cross product l0 x l1 in 0..=3B x l2 in {0,1,B}; 32 edge lengths; 32768 arithmetic with len <= 10B"},
        },
        "outside": ["roll-over between WAL *files* (RollingWriter::write / std::fs)", "entries longer than 3 blocks on the data path (arithmetic only up to 10 blocks at the real geometry)",
                    "block sizes other than 16/32 on the data path", "the real CRC-32 polynomial"],
        "assumptions": [CRC_ASSUMPTION, DEV_ASSUMPTION,
                        "claims made at B=16/32 do not by themselves extend to B=32768; the arithmetic that depends on the constant is decided separately at 32768 (c15_real_*)"],
    },
}
