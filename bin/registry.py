"""Registry of checks: which harnesses decide which property, per tier and block geometry.

harness patterns are fnmatch patterns on the harness function name; `filters` are the substring
filters handed to `cargo kani --only-codegen --harness` so that only this check's harnesses are
lowered to goto-programs.
"""

STREAM_FUNCS = [
    "recordlog::writer::RecordWriter::write_record", "recordlog::writer::frame_type",
    "frame::writer::FrameWriter::{create,write_frame,max_writable_frame_length}",
    "frame::header::Header::{for_payload,serialize,deserialize,check,len,frame_type}",
    "frame::header::FrameType::{from_u8,to_u8,is_first_frame_of_record,is_last_frame_of_record}",
    "frame::reader::FrameReader::{open,read_frame,get_frame_header,go_to_next_block_if_necessary}",
    "recordlog::reader::RecordReader::{open,go_next,read_record,record}",
]

CRC_ASSUMPTION = (
    "S-crc: frame::header::crc32 (private; called by both Header::for_payload and Header::check) is replaced "
    "by a checksum oracle K(frame_type, len) with a non-zero low byte; for frames the harness has damaged the "
    "oracle returns a value different from the stored one (ideal-checksum reading of 'up to a CRC-32 "
    "collision'). The real crc32fast is not executed.")
DEV_ASSUMPTION = (
    "in-memory block devices ArrW/ArrR/CurW (harness/common.rs) stand for RollingWriter/RollingReader: "
    "zero-prefilled, next_block never fails, a single stream without file boundaries")

HOOK_COMMITS = ["51e6703"]

NA_GLUE = ("the deciding mechanism lives in MultiRecordLog / RollingReader / RollingWriter / Directory over std::fs, std::path, "
           "core::fmt, HashMap and BTreeSet; symbolic execution of those std bodies does not terminate under CBMC in this "
           "sandbox (DESIGN.md section 3, probes B1-B7) and replacing them would verify a re-hosted copy, not the repository")

NOT_APPLICABLE = {
    "C01": "restart == replay of the WAL by open_with_prefs over files, roll-over and GC: " + NA_GLUE,
    "C02": "pending: torn-write check under construction",
    "C03": "the property is the order of flush / sync_data / sync_directory / remove_file calls issued by multi_record_log.rs and rolling/directory.rs: " + NA_GLUE,
    "C08": "pending",
    "C09": "pending",
    "C10": "pending",
    "C11": "the failing retry loop is the `let Ok(..) else continue` of open_with_prefs, which cannot be executed without RollingReader: " + NA_GLUE,
    "C12": "pending",
    "C13": "'nothing was written and the outcome says 0' is a statement about MultiRecordLog::{create_queue,delete_queue,append_records,truncate} and the writer's I/O: " + NA_GLUE,
    "C14": "lock-step runs of MultiRecordLog under different policies (and Instant::now): " + NA_GLUE,
    "C15": "pending",
    "C18": "isolation is delivered by the HashMap<String, MemQueue> lookups and by the GC glue: " + NA_GLUE,
}

CHECKS = {
    "C07": {
        "design_ref": "DESIGN.md section 4, C07",
        "technique": "bounded model checking of the compiled Rust (Kani/CBMC): case-split lengths, symbolic payload bytes, SAT",
        "level_text": ("Bounded model checking of the real writer/reader code: for every (alignment x length x follower) of the "
                       "stated small geometry and every payload byte value, what RecordWriter writes is what RecordReader "
                       "returns, in order; split/padding arithmetic additionally decided at the real 32 KiB block size with "
                       "symbolic cursor and length. Bounded, not a proof: entries <= 3 blocks, block sizes 16/32 on the data path."),
        "level_note": ("trusted: rustc MIR + kani-compiler lowering, CBMC, CaDiCaL; the checksum oracle stub (real CRC-32 not executed); "
                       "array-backed block devices instead of the rolling files; file roll-over is outside"),
        "filters": ["c07_", "c15_real"],
        "quick": {
            "harnesses": [("16", "c07_rt_q*"), ("real", "c15_real_q*"), ("real", "c15_real_frame_q")],
            "jobs": 14, "timeout": 900,
        },
        "thorough": {
            "harnesses": [("16", "c07_rt_q*"), ("16", "c07_rt_t*"), ("32", "c07_rt_t32_*"),
                          ("real", "c15_real_*")],
            "jobs": 16, "timeout": 3000, "solvers": ["cadical"],
        },
        "rule": ("case = (l0, l1, l2): three entries written back to back through the real RecordWriter into "
                 "zero-prefilled blocks and read back through the real RecordReader; l0 sets the block alignment "
                 "of entry 1, l1 is the length under test, l2 the follower. Lengths are concrete loop variables "
                 "(path enumeration inside the model checker, complete by the unwinding assertions), payload "
                 "bytes are symbolic (decided by SAT). A case is non-trivial when entry 1 spans >= 2 frames, "
                 "starts behind padding, or ends exactly at a block end. Cases are counted from CBMC's symex log "
                 "(mark_case / mark_nontrivial). Real geometry: start cursor and length symbolic."),
        "samples": [
            "c07_rt_q3 (B=16): l0 in 9..=11 x l1 in {0,1,8,9,10,18,32,48} x l2=1, 3*(B+...) payload bytes symbolic",
            "c07_rt_qf (B=16): l0 in {2,3,9} (remaining = H, H-1 -> padding, 0) x l1 in {0,9,48} x l2 in {0,16}",
            "c15_real_q (B=32768): start cursor symbolic < 4B, entry length symbolic <= 3B",
        ],
        "functions": STREAM_FUNCS,
        "bounds": {
            "quick": {"B": "16 (data path), 32768 (arithmetic)", "entries": 3, "l0": "0..=B+H", "l1": "8 edge lengths up to 3B", "l2": "1 (+{0,B} at 3 alignments)", "blocks": "<= 12", "real_geometry": "start < 4B, len <= 3B"},
            "thorough": {"B": "16 full cross product l0 x l1 in 0..=3B x l2 in {0,1,B}; 32 edge lengths; 32768 arithmetic with len <= 10B"},
        },
        "outside": ["roll-over between WAL *files* (RollingWriter::write / std::fs)", "entries longer than 3 blocks on the data path (arithmetic only up to 10 blocks at the real geometry)",
                    "block sizes other than 16/32 on the data path", "the real CRC-32 polynomial"],
        "assumptions": [CRC_ASSUMPTION, DEV_ASSUMPTION,
                        "claims made at B=16/32 do not by themselves extend to B=32768; the arithmetic that depends on the constant is decided separately at 32768 (c15_real_*)"],
    },

    "C04": {
        "design_ref": "DESIGN.md section 4, C04",
        "technique": "bounded model checking of the compiled Rust (Kani/CBMC): exhaustive op scripts against a reference model",
        "level_text": ("Bounded model checking of the real MemQueue: every script of <= 3 (quick) / 4 (thorough) operations over "
                       "{append at next / next+1 / next+2 / next-1 (must be rejected), truncate beyond / far beyond / at last / at first} "
                       "is executed on the compiled code and compared step by step with a reference whose next position is "
                       "max(next, t+1) -- i.e. never regresses and is never reused, also after the queue was emptied. Only the "
                       "in-memory half of the property: survival across GC / restart / crash is MultiRecordLog glue and not claimed."),
        "level_note": "trusted: kani-compiler, CBMC, CaDiCaL, the 40-line reference queue in harness/mem.rs; positions are concrete values near 0, 5 and 2^62-16 (a symbolic truncation point exceeds 28 GB, DESIGN B16)",
        "filters": ["c04_"],
        "quick": {"harnesses": [("real", "c04_pos*_q*")], "jobs": 14, "timeout": 900},
        "thorough": {"harnesses": [("real", "c04_pos*_q*"), ("real", "c04_pos*_t*")], "jobs": 16, "timeout": 2400},
        "rule": ("case = one operation script (base-N digits over the alphabet, see harness/mem.rs mem_scripts) run on the real "
                 "MemQueue and on the reference in lock step, assertions after every step; non-trivial = at least two accepted "
                 "appends; counts are read from CBMC's symex log (mark_case / mark_nontrivial)"),
        "samples": ["c04_pos_q_007: scripts 84..95 of 7^3 over [A(next), A(next+2), A(next-1), T(next), T(next+3), T(last), T(first)], base position 5"],
        "functions": ["mem::queue::MemQueue::{with_next_position,default,append_record,truncate_head,next_position,last_position,position_to_idx}",
                      "mem::rolling_buffer::RollingBuffer::{new,extend,truncate_head,clear,len}"],
        "bounds": {"quick": {"script_length": 3, "alphabet": 7, "bases": "5 (K=3); 0 and 2^62-16 (K=2)", "payload": "1 byte"},
                   "thorough": {"script_length": 4, "bases": "5 (K=4); 0 and 2^62-16 (K=3)"}},
        "outside": ["RecordPosition entries written by GC, ack_position, replay after restart / crash (MultiRecordLog, MemQueues)", "positions >= 2^62", "symbolic positions"],
        "assumptions": ["no stub; real Vec / VecDeque / Arc", "positions and truncation targets are concrete per script (derived from the model state), payload bytes symbolic"],
    },
    "C05": {
        "design_ref": "DESIGN.md section 4, C05",
        "technique": "bounded model checking of the compiled Rust (Kani/CBMC): exhaustive op scripts against a reference model, symbolic payload bytes and range bounds",
        "level_text": ("Bounded model checking of the in-memory store where payload bytes live (MemQueue + RollingBuffer over the real "
                       "VecDeque): after every step of every script the truncate count, next/last position, last_record and range(..) "
                       "are compared with a sequential reference, byte for byte with symbolic payload bytes; range() additionally with "
                       "symbolic bounds of every RangeBounds shape; a ring-wrap scenario covers all three branches of get_range. "
                       "create/delete/exists/list and append_records' position_opt handling are MultiRecordLog/HashMap glue and not claimed."),
        "level_note": "trusted: kani-compiler, CBMC, CaDiCaL, the reference queue in harness/mem.rs; <= 4 retained records, payloads <= 3 bytes, concrete positions",
        "filters": ["c05_"],
        "quick": {"harnesses": [("real", "c05_obs*_q*"), ("real", "c05_ring_wrap_q"), ("real", "c05_range_sym_q*")], "jobs": 14, "timeout": 900},
        "thorough": {"harnesses": [("real", "c05_obs*"), ("real", "c05_ring_wrap_q"), ("real", "c05_range_sym_*")], "jobs": 16, "timeout": 2400},
        "rule": ("case = one operation script (appends of 0..3 symbolic bytes at next / +1 / +2 / rejected position, truncations at 8 "
                 "relative targets) or one symbolic-bounds range query on a constructed state; lock step with the reference; "
                 "non-trivial = at least two accepted appends; counted from CBMC's symex log"),
        "samples": ["c05_obs_q_011: scripts 99..107 of 6^3 over [A(1,next), A(3,next+2), A(0,next), T(first), T(middle), T(next+3)], base 5",
                    "c05_range_sym_q3: records at 5,6,8 (len 1,0,2) minus the first, range((any_bound(), any_bound()))",
                    "c05_ring_wrap_q: 3+3+1 bytes, truncate 2 records, 3+2 bytes: VecDeque wraps"],
        "functions": ["mem::queue::MemQueue::{append_record,truncate_head,range,last_record,next_position,last_position,is_empty,position_to_idx}",
                      "mem::rolling_buffer::RollingBuffer::{extend,truncate_head,get_range,clear,len}"],
        "bounds": {"quick": {"script_length": 3, "alphabet": 6, "payload_len": "0..3", "retained_records": "<= 3"},
                   "thorough": {"script_length": "3 over 13 ops, 4 over 6 ops", "bases": "5, 7, 2^62-16"}},
        "outside": ["MultiRecordLog::append_records position_opt handling, create/delete/exists/list/summary (HashMap glue)", "payloads > 3 bytes (ring wrap: <= 6)", "symbolic positions"],
        "assumptions": ["no stub; real Vec / VecDeque / Cow", "positions concrete per script, payload bytes and range bounds symbolic"],
    },
    "C06": {
        "design_ref": "DESIGN.md section 4, C06",
        "technique": "bounded model checking of the compiled Rust (Kani/CBMC): exhaustive op scripts, Arc reference counts against a ghost map",
        "level_text": ("Bounded model checking of the reference bookkeeping that makes a WAL file deletable: after every step of every "
                       "script (appends under the current or the next file, truncations; one or two queues sharing three files) "
                       "FileNumber::can_be_deleted() holds exactly for the files in which no retained record of any queue lives, and "
                       "first_file_number() is the file of the oldest retained record. The GC pass, take_first_unused and the directory "
                       "listing are glue over std::fs/BTreeSet and not claimed."),
        "level_note": "trusted: kani-compiler (atomics of Arc treated sequentially), CBMC, CaDiCaL, the ghost map in harness/mem.rs; hook FileNumber::for_verif",
        "filters": ["c06_"],
        "quick": {"harnesses": [("real", "c06_files*_q*")], "jobs": 14, "timeout": 900},
        "thorough": {"harnesses": [("real", "c06_files*")], "jobs": 16, "timeout": 2400},
        "rule": ("case = one script over [append same file, append after roll-over, truncate first / middle / last] (x2 queues in the "
                 "files2 family); after each step every file handle is compared with the ghost 'some retained record lives in it'"),
        "samples": ["c06_files_q_004: scripts 28..34 of 5^3, three file handles, one queue", "c06_files2_q_003: scripts 21..27 of 8^2, two queues"],
        "functions": ["mem::queue::MemQueue::{append_record,truncate_head,first_file_number}", "rolling::file_number::FileNumber::{clone,can_be_deleted,file_number,eq}", "Arc<u64>"],
        "bounds": {"quick": {"script_length": "3 (one queue), 2 (two queues)", "files": 3}, "thorough": {"script_length": "4 (one queue), 3 (two queues)"}},
        "outside": ["FileTracker::take_first_unused (BTreeSet)", "MultiRecordLog::run_gc_if_necessary, Directory::gc, disk_used_bytes, directory listing"],
        "assumptions": ["no stub", "file handles are created with the guarded hook FileNumber::for_verif instead of FileTracker"],
    },
    "C16": {
        "design_ref": "DESIGN.md section 4, C16",
        "technique": "bounded model checking of the compiled Rust (Kani/CBMC): exhaustive op scripts, size()/capacity() against the reference's retained bytes",
        "level_text": ("Bounded model checking of MemQueue::size/capacity: after every step size() == retained payload bytes + "
                       "n * (per-record constant, measured through the API), size() <= capacity(), and an emptied queue accounts 0. "
                       "Queue-name bytes and the sum over queues (MemQueues::size over the HashMap) are not claimed."),
        "level_note": "trusted: kani-compiler, CBMC, CaDiCaL, reference queue; per-record constant obtained from a one-record queue",
        "filters": ["c16_"],
        "quick": {"harnesses": [("real", "c16_size_q*")], "jobs": 14, "timeout": 900},
        "thorough": {"harnesses": [("real", "c16_size*")], "jobs": 16, "timeout": 2400},
        "rule": "case = one script over appends of 0/2/3 (thorough 0..3) bytes and truncations at first / middle / far future; size and capacity compared after each step",
        "samples": ["c16_size_q_010: scripts 90..98 of 6^3"],
        "functions": ["mem::queue::MemQueue::{size,capacity,append_record,truncate_head}", "mem::rolling_buffer::RollingBuffer::{len,capacity,truncate_head,clear,extend}"],
        "bounds": {"quick": {"script_length": 3}, "thorough": {"script_length": "3 over 8 ops, 4 over 6 ops"}},
        "outside": ["MemQueues::size (names, HashMap)", "resource_usage()", "payloads > 3 bytes"],
        "assumptions": ["no stub"],
    },

    "C17": {
        "design_ref": "DESIGN.md section 4, C17",
        "technique": "bounded model checking of the compiled Rust (Kani/CBMC): fully symbolic file name against a reference parser",
        "level_text": ("Bounded model checking of the one function that decides what counts as a WAL file: for every 24-byte ASCII name "
                       "filename_to_position returns Some(n) exactly when the name is 'wal-' + 20 decimal digits with value n <= u64::MAX; "
                       "every ASCII name of any other length 0..30 and every 24-byte name containing one 2-byte (thorough: 3-byte) UTF-8 "
                       "character is rejected. The directory scan, the regular-file filter and file creation/removal are std::fs and not claimed."),
        "level_note": "trusted: kani-compiler, CBMC, CaDiCaL, the 20-line reference parser in harness/fname.rs; guarded forwarder to the private function (hook H4)",
        "filters": ["c17_"],
        "quick": {"harnesses": [("real", "c17_*_q*")], "jobs": 8, "timeout": 900},
        "thorough": {"harnesses": [("real", "c17_*")], "jobs": 12, "timeout": 2400, "solvers": ["cadical", "kissat"]},
        "rule": ("case = one symbolic name family: (a) all 24 bytes symbolic ASCII, (b) one per length 0..30 except 24, (c) one per "
                 "position of a 2-byte / 3-byte UTF-8 character; the verdict for all byte values is the solver's; counted from the symex log"),
        "samples": ["c17_ascii24_q: b[0..24] symbolic < 0x80, got == ref_parse(b)", "c17_non_ascii_q1: 2-byte character at byte 8..15, rest symbolic ASCII",
                    "c17_other_len_q: lengths 0..30 except 24"],
        "functions": ["rolling::directory::filename_to_position", "core::str::{starts_with, parse::<u64>}", "u8::is_ascii_digit"],
        "bounds": {"quick": {"name_length": "0..30", "non_ascii": "one 2-byte character"}, "thorough": {"non_ascii": "one 2-byte or one 3-byte character", "solvers": "cadical + kissat"}},
        "outside": ["Directory::open scan / is_file filter / to_str", "FileNumber::filename (format!) and the round trip through it", "create_file / remove_file only touch such names (std::fs)", "names with 4-byte or several multi-byte characters"],
        "assumptions": ["no stub", "names are built with from_utf8_unchecked from bytes constrained to valid UTF-8 of the stated shape"],
    },
}
