"""Registry of checks: which harnesses decide which property, per tier and block geometry.

harness patterns are fnmatch patterns on the harness function name; `filters` are the substring
filters handed to `cargo kani --only-codegen --harness` so that only this check's harnesses are
lowered to goto-programs.
"""

STREAM_FUNCS = [
    "recordlog::writer::RecordWriter::write_record", "recordlog::writer::frame_type",
    "frame::writer::FrameWriter::{create,write_frame,max_writable_frame_length}",
    "frame::header::Header::{for_payload,serialize,deserialize,check,len,frame_type}",
    "frame::header::FrameType::{from_u8,to_u8,is_first_frame_of_record,is_last_frame_of_record}",
    "frame::reader::FrameReader::{open,read_frame,get_frame_header,go_to_next_block_if_necessary}",
    "recordlog::reader::RecordReader::{open,go_next,read_record,record}",
]

CRC_ASSUMPTION = (
    "S-crc: frame::header::crc32 (private; called by both Header::for_payload and Header::check) is replaced "
    "by a checksum oracle K(frame_type, len) with a non-zero low byte; for frames the harness has damaged the "
    "oracle returns a value different from the stored one (ideal-checksum reading of 'up to a CRC-32 "
    "collision'). The real crc32fast is not executed.")
DEV_ASSUMPTION = (
    "in-memory block devices ArrW/ArrR/CurW (harness/common.rs) stand for RollingWriter/RollingReader: "
    "zero-prefilled, next_block never fails, a single stream without file boundaries")

HOOK_COMMITS = ["51e6703", "9b45c9b", "5309720", "1550565", "35b25f3"]

NA_GLUE = ("needs MultiRecordLog::open -- the directory scan, RollingReader::open and the replay loop of open_with_prefs -- and/or crash points "
           "between file-system effects. open() goes through std::fs / std::path / core::fmt bodies that do not terminate under CBMC here (DESIGN.md "
           "section 3, B1-B7) and its replay loop forks on a discriminant CBMC cannot fold after the first skipped entry (B17/B18); the I/O stubs of the "
           "log-level harnesses are stateless (B24), so an order of effects cannot be recorded. The LIVE paths of MultiRecordLog are checked under other "
           "properties (DESIGN.md section 2.7); seeded changes in open()'s replay loop and in Directory::open are not detected by any check (section 7)")

NOT_APPLICABLE = {
    "C01": "the property compares the state before drop with the state after open(): " + NA_GLUE,
    "C03": "the property is about which flush / sync_data / sync_directory / remove_file calls have happened before a crash and what open() recovers from it: " + NA_GLUE,
    "C11": "the property is about open() under injected I/O errors; the retry loop in question is the `let Ok(..) else continue` of open_with_prefs (a defect seen by reading, DESIGN.md section 5): " + NA_GLUE,
}

CHECKS = {
    "C07": {
        "design_ref": "DESIGN.md section 4, C07",
        "technique": "bounded model checking of the compiled Rust (Kani/CBMC): case-split lengths, symbolic payload bytes, SAT",
        "level_text": ("Bounded model checking of the real writer/reader code: for every (alignment x length x follower) of the "
                       "stated small geometry and every payload byte value, what RecordWriter writes is what RecordReader "
                       "returns, in order; split/padding arithmetic additionally decided at the real 32 KiB block size with "
                       "symbolic cursor and length. c07_resume_*: the real FrameReader<RollingReader>::into_writer / RollingReader::{next_block,into_writer} / "
                       "RollingWriter::forward (file system calls stubbed) on a last block whose entry leaves 0 / 6 / 7 / 8 / 100 bytes: the writer resumes "
                       "exactly where the reader will look for the next frame header. Bounded, not a proof: entries <= 3 blocks, block sizes 16/32 on the data path."),
        "level_note": ("trusted: rustc MIR + kani-compiler lowering, CBMC, CaDiCaL; the checksum oracle stub (real CRC-32 not executed); "
                       "array-backed block devices instead of the rolling files; file roll-over is outside"),
        "filters": ["c07_", "c15_real"],
        "quick": {
            "harnesses": [("16", "c07_rt_q*"), ("real", "c15_real_q*"), ("real", "c15_real_frame_q"), ("real", "c07_resume_q*")],
            "jobs": 14, "timeout": 900,
        },
        "thorough": {
            "harnesses": [("16", "c07_rt_q*"), ("16", "c07_rt_t*"), ("32", "c07_rt_t32_*"),
                          ("real", "c15_real_*"), ("real", "c07_resume_q*")],
            "jobs": 8, "timeout": 3000, "solvers": ["cadical"],
        },
        "rule": ("case = (l0, l1, l2): three entries written back to back through the real RecordWriter into "
                 "zero-prefilled blocks and read back through the real RecordReader; l0 sets the block alignment "
                 "of entry 1, l1 is the length under test, l2 the follower. Lengths are concrete loop variables "
                 "(path enumeration inside the model checker, complete by the unwinding assertions), payload "
                 "bytes are symbolic (decided by SAT). A case is non-trivial when entry 1 spans >= 2 frames, "
                 "starts behind padding, or ends exactly at a block end. Cases are counted from CBMC's symex log "
                 "(mark_case / mark_nontrivial). Real geometry: start cursor and length symbolic."),
        "samples": [
            "c07_rt_q3 (B=16): l0 in 9..=11 x l1 in {0,1,8,9,10,18,32,48} x l2=1, 3*(B+...) payload bytes symbolic",
            "c07_rt_qf (B=16): l0 in {2,3,9} (remaining = H, H-1 -> padding, 0) x l1 in {0,9,48} x l2 in {0,16}",
            "c15_real_q (B=32768): start cursor symbolic < 4B, entry length symbolic <= 3B",
        ],
        "functions": STREAM_FUNCS,
        "bounds": {
            "quick": {"B": "16 (data path), 32768 (arithmetic)", "entries": 3, "l0": "0..=B+H", "l1": "8 edge lengths up to 3B", "l2": "1 (+{0,B} at 3 alignments)", "blocks": "<= 12", "real_geometry": "start < 4B, len <= 3B"},
            "thorough": {"B": "16 full cross product l0 x l1 in 0..=3B x l2 in {0,1,B}; 32 edge lengths; 32768 arithmetic with len <= 10B"},
        },
        "outside": ["roll-over between WAL *files* (RollingWriter::write / std::fs)", "entries longer than 3 blocks on the data path (arithmetic only up to 10 blocks at the real geometry)",
                    "block sizes other than 16/32 on the data path", "the real CRC-32 polynomial"],
        "assumptions": [CRC_ASSUMPTION, DEV_ASSUMPTION,
                        "claims made at B=16/32 do not by themselves extend to B=32768; the arithmetic that depends on the constant is decided separately at 32768 (c15_real_*)"],
    },

    "C04": {
        "design_ref": "DESIGN.md section 4, C04",
        "technique": "bounded model checking of the compiled Rust (Kani/CBMC): exhaustive op scripts against a reference model",
        "level_text": ("Bounded model checking of the real MemQueue: every script of <= 3 (quick) / 4 (thorough) operations over "
                       "{append at next / next+1 / next+2 / next-1 (must be rejected), truncate beyond / far beyond / at last / at first} "
                       "is executed on the compiled code and compared step by step with a reference whose next position is "
                       "max(next, t+1) -- i.e. never regresses and is never reused, also after the queue was emptied. Only the "
                       "in-memory half of the property. MemQueues::ack_position -- what replay does with a RecordPosition entry or the first "
                       "surviving append -- is checked on the real MemQueues (map stand-in): afterwards the queue exists, is empty and continues "
                       "at exactly the recorded position, whatever state it was in. c06_gcroll_*: the real MultiRecordLog GC pass over two idle (empty) queues "
                       "whose position entries roll over to a new WAL file: both entries are written (byte count), the file that received the first one is "
                       "NOT reclaimed in the same pass, both queues keep their positions. The replay loop of open() is not claimed."),
        "level_note": "trusted: kani-compiler, CBMC, CaDiCaL, the 40-line reference queue in harness/mem.rs; positions are concrete values near 0, 5 and 2^62-16 (a symbolic truncation point exceeds 28 GB, DESIGN B16)",
        "filters": ["c04_", "c06_gcroll"],
        "quick": {"harnesses": [("real", "c04_pos*_q*"), ("real", "c04_ack*_q*"), ("real", "c06_gcroll_q*")], "jobs": 14, "timeout": 900},
        "thorough": {"harnesses": [("real", "c04_pos*_q*"), ("real", "c04_pos*_t*"), ("real", "c04_ack*"), ("real", "c06_gcroll_q*")], "jobs": 16, "timeout": 2400},
        "rule": ("case = one operation script (base-N digits over the alphabet, see harness/mem.rs mem_scripts) run on the real "
                 "MemQueue and on the reference in lock step, assertions after every step; non-trivial = at least two accepted "
                 "appends; counts are read from CBMC's symex log (mark_case / mark_nontrivial)"),
        "samples": ["c04_pos_q_007: scripts 84..95 of 7^3 over [A(next), A(next+2), A(next-1), T(next), T(next+3), T(last), T(first)], base position 5",
                    "c04_ack_q_005: scripts 40..47 of 8^2 over [create, append, append+2, truncate future, ack_position(next+5), ack_position(0), delete, append b] on MemQueues"],
        "functions": ["mem::queue::MemQueue::{with_next_position,default,append_record,truncate_head,next_position,last_position,position_to_idx}",
                      "mem::rolling_buffer::RollingBuffer::{new,extend,truncate_head,clear,len}"],
        "bounds": {"quick": {"script_length": 3, "alphabet": 7, "bases": "5 (K=3); 0 and 2^62-16 (K=2)", "payload": "1 byte"},
                   "thorough": {"script_length": 4, "bases": "5 (K=4); 0 and 2^62-16 (K=3)"}},
        "outside": ["RecordPosition entries written by GC, ack_position, replay after restart / crash (MultiRecordLog, MemQueues)", "positions >= 2^62", "symbolic positions"],
        "assumptions": ["no stub; real Vec / VecDeque / Arc", "positions and truncation targets are concrete per script (derived from the model state), payload bytes symbolic"],
    },
    "C05": {
        "design_ref": "DESIGN.md section 4, C05",
        "technique": "bounded model checking of the compiled Rust (Kani/CBMC): exhaustive op scripts against a reference model, symbolic payload bytes and range bounds",
        "level_text": ("Bounded model checking of the in-memory store where payload bytes live (MemQueue + RollingBuffer over the real "
                       "VecDeque): after every step of every script the truncate count, next/last position, last_record and range(..) "
                       "are compared with a sequential reference, byte for byte with symbolic payload bytes; range() additionally with "
                       "symbolic bounds of every RangeBounds shape; a ring-wrap scenario covers all three branches of get_range. "
                       "create/delete/exists/list are checked on the real MemQueues over a map stand-in (c18_iso_q_*: created-and-not-deleted names, "
                       "AlreadyExists, per-queue records). c05_log_*: the real MultiRecordLog (constructed through hooks over stubbed I/O leaves): automatic positions, "
                       "explicit future positions, a retried last position (acknowledged no-op), an older position (Past), empty batches, batches, truncate counts, "
                       "checked call by call against a model. Behaviour across restarts is not claimed."),
        "level_note": "trusted: kani-compiler, CBMC, CaDiCaL, the reference queue in harness/mem.rs; <= 4 retained records, payloads <= 3 bytes, concrete positions",
        "filters": ["c05_", "c18_iso_q", "c13_one"],
        "quick": {"harnesses": [("real", "c05_obs*_q*"), ("real", "c05_ring_wrap_q"), ("real", "c05_big_q*"), ("real", "c05_range_sym_q*"), ("real", "c18_iso_q_00[0-3]"), ("real", "c05_log_q*"), ("real", "c05_log2_q_00[0178]"), ("real", "c13_one_q_00[3-5]")], "jobs": 14, "timeout": 1200},
        "thorough": {"harnesses": [("real", "c05_obs*"), ("real", "c05_ring_wrap_q"), ("real", "c05_big_q*"), ("real", "c05_range_sym_*"), ("real", "c18_iso_q_0*"), ("real", "c05_log_*"), ("real", "c13_one_q_0*")], "jobs": 10, "timeout": 2400},
        "rule": ("case = one operation script (appends of 0..3 symbolic bytes at next / +1 / +2 / rejected position, truncations at 8 "
                 "relative targets) or one symbolic-bounds range query on a constructed state; lock step with the reference; "
                 "non-trivial = at least two accepted appends; counted from CBMC's symex log"),
        "samples": ["c05_obs_q_011: scripts 99..107 of 6^3 over [A(1,next), A(3,next+2), A(0,next), T(first), T(middle), T(next+3)], base 5",
                    "c05_range_sym_q3: records at 5,6,8 (len 1,0,2) minus the first, range((any_bound(), any_bound()))",
                    "c05_ring_wrap_q: 3+3+1 bytes, truncate 2 records, 3+2 bytes: VecDeque wraps"],
        "functions": ["mem::queue::MemQueue::{append_record,truncate_head,range,last_record,next_position,last_position,is_empty,position_to_idx}",
                      "mem::rolling_buffer::RollingBuffer::{extend,truncate_head,get_range,clear,len}"],
        "bounds": {"quick": {"script_length": 3, "alphabet": 6, "payload_len": "0..3", "retained_records": "<= 3"},
                   "thorough": {"script_length": "3 over 13 ops, 4 over 6 ops", "bases": "5, 7, 2^62-16"}},
        "outside": ["MultiRecordLog::append_records position_opt handling, create/delete/exists/list/summary (HashMap glue)", "payloads > 3 bytes (ring wrap: <= 6)", "symbolic positions"],
        "assumptions": ["no stub; real Vec / VecDeque / Cow", "positions concrete per script, payload bytes and range bounds symbolic"],
    },
    "C06": {
        "design_ref": "DESIGN.md section 4, C06",
        "technique": "bounded model checking of the compiled Rust (Kani/CBMC): exhaustive op scripts, Arc reference counts against a ghost map",
        "level_text": ("Bounded model checking of the reference bookkeeping that makes a WAL file deletable: after every step of every "
                       "script (appends under the current or the next file, truncations; one or two queues sharing three files) "
                       "FileNumber::can_be_deleted() holds exactly for the files in which no retained record of any queue lives, and "
                       "first_file_number() is the file of the oldest retained record; FileTracker (real BTreeSet) hands out for deletion exactly "
                       "the unreferenced oldest files, oldest first, never the last one. c06_gc*: the real MultiRecordLog::truncate / delete_queue / "
                       "run_gc_if_necessary over a log with three files: after every call the tracked files are exactly the contiguous run from the file of "
                       "the oldest retained record (or the current file) to the current file, disk_used_bytes follows, and one position entry per empty queue is "
                       "written before files are reclaimed; c06_gcroll_*: a GC pass whose position entries roll over to a new file keeps the file that received the "
                       "first of them. open() and the actual unlink are std::fs and not claimed."),
        "level_note": "trusted: kani-compiler (atomics of Arc treated sequentially), CBMC, CaDiCaL, the ghost map in harness/mem.rs; hook FileNumber::for_verif",
        "filters": ["c06_"],
        "quick": {"harnesses": [("real", "c06_files*_q*"), ("real", "c06_tracker_q*"), ("real", "c06_gc_q*"), ("real", "c06_gc0_q*"), ("real", "c06_gc2_q*"), ("real", "c06_gc2b_q*"), ("real", "c06_gcroll_q*")], "jobs": 14, "timeout": 1200},
        "thorough": {"harnesses": [("real", "c06_files*"), ("real", "c06_tracker_q*"), ("real", "c06_gc*")], "jobs": 10, "timeout": 2400},
        "rule": ("case = one script over [append same file, append after roll-over, truncate first / middle / last] (x2 queues in the "
                 "files2 family); after each step every file handle is compared with the ghost 'some retained record lives in it'"),
        "samples": ["c06_files_q_004: scripts 28..34 of 5^3, three file handles, one queue", "c06_files2_q_003: scripts 21..27 of 8^2, two queues",
                    "c06_tracker_q_h2: FileTracker over files 0,1,2 with a queue still referencing file 1: the GC pass hands out exactly file 0"],
        "functions": ["mem::queue::MemQueue::{append_record,truncate_head,first_file_number}", "rolling::file_number::FileNumber::{clone,can_be_deleted,file_number,eq}", "Arc<u64>",
                      "rolling::file_number::FileTracker::{from_file_numbers,first,next,inc,take_first_unused,count} (real std BTreeSet)"],
        "bounds": {"quick": {"script_length": "3 (one queue), 2 (two queues)", "files": 3}, "thorough": {"script_length": "4 (one queue), 3 (two queues)"}},
        "outside": ["MultiRecordLog::run_gc_if_necessary (when the pass runs, the current-file guard), Directory::gc (unlink), disk_used_bytes, directory listing"],
        "assumptions": ["no stub", "file handles are created with the guarded hook FileNumber::for_verif instead of FileTracker"],
    },
    "C16": {
        "design_ref": "DESIGN.md section 4, C16",
        "technique": "bounded model checking of the compiled Rust (Kani/CBMC): exhaustive op scripts, size()/capacity() against the reference's retained bytes",
        "level_text": ("Bounded model checking of MemQueue::size/capacity: after every step size() == retained payload bytes + "
                       "n * (per-record constant, measured through the API), size() <= capacity(), and an emptied queue accounts 0. "
                       "MemQueues::size (c18_iso_q_*): used == queue-name BYTES (one name holds a 2-byte character) + payload + n * constant, summed over the queues "
                       "(map stand-in for the HashMap); c13_one_*: MultiRecordLog::resource_usage() after every call equals that sum and never exceeds the allocated bytes."),
        "level_note": "trusted: kani-compiler, CBMC, CaDiCaL, reference queue; per-record constant obtained from a one-record queue",
        "filters": ["c16_", "c18_iso_q", "c13_one"],
        "quick": {"harnesses": [("real", "c16_size_q*"), ("real", "c16_big_q*"), ("real", "c18_iso_q_00*"), ("real", "c13_one_q_00[0-3]")], "jobs": 14, "timeout": 1200},
        "thorough": {"harnesses": [("real", "c16_size*"), ("real", "c16_big_*"), ("real", "c18_iso_q_0*")], "jobs": 16, "timeout": 2400},
        "rule": "case = one script over appends of 0/2/3 (thorough 0..3) bytes and truncations at first / middle / far future; size and capacity compared after each step",
        "samples": ["c16_size_q_010: scripts 90..98 of 6^3", "c16_big_q_1_16: payloads of 1 and 16 symbolic bytes, truncated one by one (evicting < 1/8 of the buffer)"],
        "functions": ["mem::queue::MemQueue::{size,capacity,append_record,truncate_head}", "mem::rolling_buffer::RollingBuffer::{len,capacity,truncate_head,clear,extend}"],
        "bounds": {"quick": {"script_length": 3}, "thorough": {"script_length": "3 over 8 ops, 4 over 6 ops"}},
        "outside": ["MemQueues::size (names, HashMap)", "resource_usage()", "payloads > 3 bytes"],
        "assumptions": ["no stub"],
    },

    "C17": {
        "design_ref": "DESIGN.md section 4, C17",
        "technique": "bounded model checking of the compiled Rust (Kani/CBMC): fully symbolic file name against a reference parser",
        "level_text": ("Bounded model checking of the one function that decides what counts as a WAL file: for every 24-byte ASCII name "
                       "filename_to_position returns Some(n) exactly when the name is 'wal-' + 20 decimal digits with value n <= u64::MAX; "
                       "every ASCII name of any other length 0..30 and every 24-byte name containing one 2-byte (thorough: also one 3-byte or one 4-byte, "
                       "the whole of U+0080..U+10FFFF minus surrogates) UTF-8 character is rejected; the tracked files are walked in numeric order across gaps (FileTracker, concrete numbers). The directory scan, the regular-file filter and file creation/removal are std::fs and not claimed."),
        "level_note": "trusted: kani-compiler, CBMC, CaDiCaL, the 20-line reference parser in harness/fname.rs; guarded forwarder to the private function (hook H4)",
        "filters": ["c17_"],
        "quick": {"harnesses": [("real", "c17_*_q*")], "jobs": 8, "timeout": 900},
        "thorough": {"harnesses": [("real", "c17_*")], "jobs": 12, "timeout": 2400, "solvers": ["cadical", "kissat"]},
        "rule": ("case = one symbolic name family: (a) all 24 bytes symbolic ASCII, (b) one per length 0..30 except 24, (c) one per "
                 "position of a 2-byte / 3-byte / 4-byte UTF-8 character; the verdict for all byte values is the solver's; counted from the symex log"),
        "samples": ["c17_tracker_q_gap: FileTracker over {0,1,3}: first/next walk 0,1,3 in order across the gap", "c17_ascii24_q: b[0..24] symbolic < 0x80, got == ref_parse(b)", "c17_non_ascii_q1: 2-byte character at byte 8..15, rest symbolic ASCII",
                    "c17_other_len_q: lengths 0..30 except 24"],
        "functions": ["rolling::directory::filename_to_position", "core::str::{starts_with, parse::<u64>}", "u8::is_ascii_digit", "rolling::file_number::FileTracker::{from_file_numbers,first,next} (ordering with gaps)"],
        "bounds": {"quick": {"name_length": "0..30", "non_ascii": "one 2-byte character"}, "thorough": {"non_ascii": "one 2-byte, one 3-byte (U+0800..U+FFFF minus surrogates) or one 4-byte (U+10000..U+10FFFF) character at every position", "solvers": "cadical + kissat"}},
        "outside": ["Directory::open scan / is_file filter / to_str", "FileNumber::filename (format!) and the round trip through it", "create_file / remove_file only touch such names (std::fs)", "names with several multi-byte characters"],
        "assumptions": ["no stub", "names are built with from_utf8_unchecked from bytes constrained to valid UTF-8 of the stated shape"],
    },

    "C15": {
        "design_ref": "DESIGN.md section 4, C15",
        "technique": "bounded model checking of the compiled Rust (Kani/CBMC): symbolic cursor and length at the real block size",
        "level_text": ("Bounded model checking of the byte accounting of the writer: at the real 32 KiB geometry, for every start cursor "
                       "< 4 blocks and every entry length <= 3 (thorough 10) blocks, write_record returns exactly the cursor advance, which "
                       "equals padding + one header per frame + payload recomputed by a closed-form reference, is never 0, and write_frame "
                       "returns padding + header + payload; at B=16 the same with real bytes. At the API (c06_gc*, c13_one_*: real MultiRecordLog over stubbed I/O "
                       "leaves): wal_bytes_written of create / append / truncate / delete equals the advance of the writer's cursor, including the position "
                       "entries written by garbage collection, and is 0 for no-op and rejected calls."),
        "level_note": "trusted: kani-compiler, CBMC, CaDiCaL; checksum oracle stub; cursor-only block device CurW; Serializable producing n zero bytes",
        "filters": ["c15_real", "c07_rt_qf", "c06_gc", "c13_one"],
        "quick": {"harnesses": [("real", "c15_real_q*"), ("real", "c15_real_frame_q"), ("16", "c07_rt_qf*"), ("real", "c06_gc_q*"), ("real", "c06_gc2b_q*"), ("real", "c13_one_q_00[0-6]")], "jobs": 14, "timeout": 1200},
        "thorough": {"harnesses": [("real", "c15_real_*"), ("16", "c07_rt_qf*"), ("real", "c06_gc*"), ("real", "c13_one_q_0*")], "jobs": 8, "timeout": 3000, "solvers": ["cadical"]},
        "rule": ("real geometry: one query with symbolic (start, len); small geometry: 18 (alignment, length, follower) cases with real bytes; "
                 "non-trivial witnesses are cover properties (>= 4 frames, padding, empty first frame, exact block end, empty entry)"),
        "samples": ["c15_real_q: start < 131072, len <= 98304 symbolic; assert n == end-start == ref_entry_footprint(start,len) > 0",
                    "c15_real_frame_q: write_frame with symbolic legal payload length"],
        "functions": ["recordlog::writer::RecordWriter::write_record", "frame::writer::FrameWriter::{write_frame,max_writable_frame_length}", "frame::header::Header::{for_payload,serialize}"],
        "bounds": {"quick": {"B": 32768, "start": "< 4B", "len": "<= 3B"}, "thorough": {"len": "<= 10B", "solvers": "cadical + kissat"}},
        "outside": ["GC bytes added to the triggering call, 0 for rejected / no-op calls, create/delete outcomes (MultiRecordLog)", "roll-over to the next file"],
        "assumptions": [CRC_ASSUMPTION, DEV_ASSUMPTION],
    },
    "C09": {
        "design_ref": "DESIGN.md section 4, C09",
        "technique": "bounded model checking of the compiled Rust (Kani/CBMC): per-frame damage cases, symbolic payload and garbage bytes, checksum oracle",
        "level_text": ("Bounded model checking of the real reader on a genuine 3-entry stream in which the payload bytes (symbolic garbage) "
                       "or the checksum bytes (4 concrete alterations) of ONE frame are damaged, for every frame of the stream: the replay "
                       "loop delivers exactly the other entries, intact and in order, reports exactly one corruption and terminates. "
                       "The checksum oracle these cases rest on is backed by the real-CRC harnesses (c08_crc_*: what write_frame stores and read_frame "
                       "accepts is CRC-32(type ++ payload), no stub), which this check also runs. "
                       "Queue-level tolerance of a lost entry: MemQueue accepts gaps (C04/C05 scripts) and MemQueues::ack_position re-creates or resets a "
                       "stale queue from a later position record (c04_ack_*, real MemQueues over a map stand-in); the replay loop that calls them is glue and not claimed."),
        "level_note": "trusted: kani-compiler, CBMC, CaDiCaL; ideal-checksum oracle (a damaged frame fails its check; CRC collisions excluded); ArrW/ArrR devices; cases where the reader's cursor would fork are cut one call after the failure (DESIGN B18)",
        "filters": ["c09_", "c08_crc_", "c04_ack_"],
        "codegen_groups": {"16": [["c08_crc_"], ["c09_"]]},
        "quick": {"harnesses": [("16", "c09_crc_q*"), ("16", "c08_crc_*_q*"), ("real", "c04_ack_q*")], "jobs": 14, "timeout": 1200},
        "thorough": {"harnesses": [("16", "c09_*"), ("16", "c08_crc_*"), ("32", "c09_crc_t32_*"), ("real", "c04_ack*")], "jobs": 8, "timeout": 3000},
        "rule": ("case = (length triple, frame index, damage kind, variant); lengths pairwise distinct; hit frame enumerated over every frame of "
                 "the stream; non-trivial = the hit frame belongs to a multi-frame entry or is followed by other entries; counted from the symex log"),
        "samples": ["c09_crc_q_a_f2: lengths (5,20,1), frame 2 = Middle frame of the 3-frame entry: payload <- 9 symbolic bytes; checksum ^0x01 / ^0x80.. / zeroed / 0xff",
                    "c09_crc_q_b_f1: lengths (9,0,30), frame 1 = the empty entry's header-only frame"],
        "functions": STREAM_FUNCS,
        "bounds": {"quick": {"B": 16, "entries": 3, "triples": "(5,20,1), (9,0,30)", "damage": "payload (symbolic), checksum (4 variants)"},
                   "thorough": {"triples": "+ (1,40,3), (2,3,25), (16,10,0)", "damage": "+ type byte -> other valid type"}},
        "outside": ["queue-level tolerance of the missing entry (open_with_prefs, MemQueues::ack_position)", "damage to more than one frame", "B = 32768"],
        "assumptions": [CRC_ASSUMPTION, DEV_ASSUMPTION, "the harness drives the reader like open_with_prefs does: errors are skipped, Ok(None) ends the replay"],
    },
    "C08": {
        "design_ref": "DESIGN.md section 4, C08",
        "technique": "bounded model checking of the compiled Rust (Kani/CBMC): per-frame header/length damage cases + symbolic entry buffers against a reference decoder",
        "level_text": ("Bounded model checking of (i) the real reader on a genuine stream with ONE frame header damaged -- type byte to each "
                       "other valid and to invalid values, header or whole frame zero-filled, length field to 0 / L-1 / L+1 / B / 0xffff -- for "
                       "every frame: everything delivered is byte-identical to a written entry, in writing order, at most once, the hit entry "
                       "is not delivered, the reader terminates; (ii) MultiPlexedRecord::deserialize on symbolic buffers: an accepted entry "
                       "carries exactly the tag, queue, position and batch items its bytes spell, a batch is accepted only if it parses "
                       "completely. 'Only queue/position/payload of an earlier append' at the API is open_with_prefs glue and not claimed."),
        "level_note": "trusted: kani-compiler, CBMC, CaDiCaL; ideal-checksum oracle; from_utf8 stub (ASCII queue names); concrete payload patterns when a damaged length makes the reader parse payload bytes as headers",
        "filters": ["c08_"],
        "codegen_groups": {"16": [["c08_crc_"], ["c08_hdr_", "c08_len_"]]},
        "quick": {"harnesses": [("16", "c08_hdr_q*"), ("16", "c08_len_q*"), ("16", "c08_crc_*_q*"), ("real", "c08_deser_q*")], "jobs": 14, "timeout": 1200},
        "thorough": {"harnesses": [("16", "c08_hdr_*"), ("16", "c08_len_*"), ("16", "c08_crc_*"), ("32", "c08_*_t32_*"), ("real", "c08_deser_*")], "jobs": 8, "timeout": 3000},
        "rule": ("stream cases = (length triple, frame, header damage kind, variant), all frames x all variants; entry cases = (buffer length N, "
                 "queue-name length) with tag, position, batch headers and payload bytes symbolic; counted from the symex log"),
        "samples": ["c08_len_q_a_f3: lengths (5,20,1), Last frame of the 3-frame entry: length field -> 0, 1, 3, 16, 0xffff",
                    "c08_hdr_q_a_f1: First frame: type -> Middle/Last/Full, type -> 0/5/0xff, header zero-filled, frame zero-filled",
                    "c08_deser_q_n26_q2: 26 symbolic bytes, 2-byte queue name: accepted => fields == bytes, batch parses completely",
                    "c08_crc_reader_q_n2: NO checksum stub: frame with symbolic type, 2 symbolic payload bytes and symbolic stored checksum: read_frame accepts iff stored == bitwise CRC-32(type ++ payload)"],
        "functions": STREAM_FUNCS + ["record::MultiPlexedRecord::deserialize", "record::MultiRecord::{new,new_unchecked,next,reset_position}", "record::RecordType::try_from"],
        "bounds": {"quick": {"B": 16, "triple": "(5,20,1)", "entry_buffer": "<= 36 bytes"}, "thorough": {"triples": "+ (9,0,30), (1,40,3), (2,3,25)", "entry_buffer": "<= 40 bytes, names 0..3 bytes"}},
        "outside": ["mapping of replay errors to Corruption and 'open succeeds or reports' (open_with_prefs)", "a complete authentic frame embedded by the user inside a payload and exposed by length damage (counts as checksum collision; DESIGN section 5)",
                    "overwrites spanning several frames or files", "non-ASCII queue names"],
        "assumptions": [CRC_ASSUMPTION, DEV_ASSUMPTION, "S-utf8: core::str::from_utf8 replaced by a stub that assumes ASCII"],
    },
    "C12": {
        "design_ref": "DESIGN.md section 4, C12",
        "technique": "bounded model checking of the compiled Rust (Kani/CBMC): every damage kind and every byte cut on each frame of a 6-frame entry; batch buffers under every truncation",
        "level_text": ("Bounded model checking that a multi-frame WAL entry is delivered all-or-nothing: a 3-frame (thorough: 6-frame) entry between two small "
                       "ones, every frame of it damaged in every modelled way (payload, checksum, type, length incl. length -> 0) and the "
                       "stream cut after every byte of it: the entry is never delivered partially or spliced, neighbours are unaffected. "
                       "At the batch level: a batch serialized by the real MultiRecord/MultiPlexedRecord code round-trips, and every "
                       "truncation of it is either rejected or a whole number of leading items. That append_records puts the whole batch "
                       "into ONE entry and applies it after the write is MultiRecordLog glue and not claimed."),
        "level_note": "trusted: kani-compiler, CBMC, CaDiCaL; ideal-checksum oracle; from_utf8 stub; forking cases cut one call after the failure (B18)",
        "filters": ["c12_", "c08_crc_", "c13_one_q_006"],
        "codegen_groups": {"16": [["c08_crc_"], ["c12_"]]},
        "quick": {"harnesses": [("16", "c12_ent_*_q*"), ("16", "c12_cut_q*"), ("16", "c08_crc_*_q*"), ("real", "c12_batch_q*"), ("real", "c13_one_q_006")], "jobs": 14, "timeout": 1500},
        "thorough": {"harnesses": [("16", "c12_ent_*"), ("16", "c12_big_*"), ("16", "c12_cut_*"), ("real", "c12_batch_*")], "jobs": 8, "timeout": 3600, "mem_gb": 16},
        "rule": "case = (frame of the large entry, damage kind, variant) or (cut offset) or (batch shape, truncation point); counted from the symex log",
        "samples": ["c12_ent_len_q_a_f3: lengths (5,20,1): entry 1 = First+Middle+Last; Last frame: length -> 0, 1, 3, 16, 0xffff",
                    "c12_ent_crc_q_a_f2: Middle frame: payload <- symbolic garbage; checksum 4 variants", "c12_cut_q_a_c040: cuts 40..45 inside the 3-frame entry", "c12_batch_q_1_0_2: batch of payload lengths 1,0,2 at symbolic start position, all 51 truncations"],
        "functions": STREAM_FUNCS + ["record::MultiRecord::{serialize,serialize_with_pos,new,new_unchecked,next}", "record::MultiPlexedRecord::{serialize,deserialize}"],
        "bounds": {"quick": {"B": 16, "entry": "20 bytes = 3 frames", "batch": "<= 3 records of <= 3 bytes"}, "thorough": {"entries": "+ 40 bytes = 6 frames, 30 bytes = 5 frames (Middle->Middle hits left out, B18)", "batch": "all shapes over {0,1,3}"}},
        "outside": ["MultiRecordLog::append_records (one batch = one entry; applied after the write)", "entries spanning two WAL files", "truncation legitimately removing a leading part"],
        "assumptions": [CRC_ASSUMPTION, DEV_ASSUMPTION, "S-utf8 stub"],
    },
    "C02": {
        "design_ref": "DESIGN.md section 4, C02",
        "technique": "bounded model checking of the compiled Rust (Kani/CBMC): every byte cut of a written stream, symbolic payload bytes, checksum oracle",
        "level_text": ("Bounded model checking of torn-write atomicity of the WAL byte stream: three entries written by the real writer into "
                       "zero-prefilled blocks; for EVERY cut offset c the image 'first c bytes, zeros after' is recovered by the real reader "
                       "driven like the replay loop: exactly the entries completed before the cut are delivered, never a partial one; and for every "
                       "cut between two frames a real writer resumes there with a new entry, after which exactly the completed entries and the "
                       "new one are recovered (orphan frames never delivered or spliced). GC order (c06_gcroll_*, real MultiRecordLog): the position entries of idle "
                       "queues are written before files are reclaimed and the file holding them survives the pass even when they roll over to a new file. "
                       "Crashes inside file creation/removal or GC, the writer resuming behind the torn tail (RollingReader::into_writer) "
                       "and usability after recovery are file-layer / MultiRecordLog glue and not claimed."),
        "level_note": "trusted: kani-compiler, CBMC, CaDiCaL; ideal-checksum oracle for the torn frame; effects reach the zero-prefilled file in program order (process-crash model)",
        "filters": ["c02_", "c06_gcroll", "c07_resume"],
        "quick": {"harnesses": [("16", "c02_torn_q*"), ("16", "c02_resume_q*"), ("real", "c06_gcroll_q*"), ("real", "c07_resume_q*")], "jobs": 14, "timeout": 1500},
        "thorough": {"harnesses": [("16", "c02_torn_*"), ("16", "c02_resume_*"), ("32", "c02_*_t32_*"), ("real", "c06_gcroll_q*"), ("real", "c07_resume_q*")], "jobs": 8, "timeout": 3000},
        "rule": "case = (length triple, cut offset), every offset 0..=end; non-trivial = the cut falls inside a frame payload; counted from the symex log",
        "samples": ["c02_torn_q_a_c036: lengths (5,20,1), cuts 36..41 (inside the Middle frame of entry 1)",
                    "c02_resume_q_a_n4_f0: crash after frame 0/1/2 of (5,20,1) (frame 1 = orphan First frame of entry 1), then a real writer resumes there with a new 4-byte entry; recover all"],
        "functions": STREAM_FUNCS,
        "bounds": {"quick": {"B": 16, "triples": "(5,20,1): 73 cuts, (9,0,30): 89 cuts; resume after every frame end with a new entry of 4 / 12 bytes"}, "thorough": {"triples": "+ (1,40,3), (2,3,25), (16,10,0)"}},
        "outside": ["crash during create_file / set_len / remove_file / GC (std::fs)", "RollingReader::into_writer resuming behind the torn tail", "behaviour of further operations after recovery; second crash", "in-flight truncate / delete_queue"],
        "assumptions": [CRC_ASSUMPTION, DEV_ASSUMPTION, "if the missing tail of the torn frame was all zeros the image equals that of a later cut, which is enumerated as its own case"],
    },
    "C10": {
        "design_ref": "DESIGN.md section 4, C10",
        "technique": "bounded model checking of the compiled Rust (Kani/CBMC): fully symbolic buffers, Kani's built-in panic/overflow/bounds checks",
        "level_text": ("Bounded model checking of no-panic and termination for the parsers recovery runs on untrusted bytes: "
                       "MultiPlexedRecord::deserialize and MultiRecord iteration on fully symbolic buffers of every length up to 24 (thorough 30) "
                       "bytes -- no panic, overflow or out-of-bounds slice on any path, at most len/12 items -- and the frame/record reader on "
                       "every length-damaged frame of a stream reaches the end of the log within (frames + blocks + 2) calls; MemQueues::ack_position (what replay "
                       "calls for a position record) does not panic after any two operations (c04_ack_*). Directory "
                       "scanning, short/stray/transposed files and MultiRecordLog accessors are std::fs / glue and not claimed."),
        "level_note": "trusted: kani-compiler (its panic / arithmetic-overflow / bounds instrumentation), CBMC, CaDiCaL; from_utf8 stub; checksum oracle",
        "filters": ["c10_", "c08_len_q", "c04_ack"],
        "quick": {"harnesses": [("real", "c10_*_q*"), ("16", "c08_len_q*"), ("real", "c04_ack*_q*")], "jobs": 14, "timeout": 1200},
        "thorough": {"harnesses": [("real", "c10_*"), ("16", "c08_len_q*"), ("real", "c04_ack*")], "jobs": 16, "timeout": 3000},
        "rule": "case = one buffer length with all bytes symbolic (parsers), or one length-damage case (reader progress bound); counted from the symex log",
        "samples": ["c10_deser_q_n24: 24 symbolic bytes incl. tag, name length and batch headers", "c10_mrec_q_n25: MultiRecord::new_unchecked over 25 symbolic bytes, iterate to first error"],
        "functions": ["record::MultiPlexedRecord::deserialize", "record::MultiRecord::{new,new_unchecked,next}", "frame::reader::FrameReader::read_frame", "recordlog::reader::RecordReader::{go_next,read_record}"],
        "bounds": {"quick": {"buffer": "0,10,11,12,20,24 (entries); 0,5,11,12,13,16,24,25 (batches)"}, "thorough": {"buffer": "every length 0..=30"}},
        "outside": ["Directory::open / RollingReader (short, empty, stray, transposed files)", "allocation bounds", "MultiRecordLog read accessors", "arbitrary block content for the frame reader (symbolic cursors: > 28 GB, DESIGN B11)"],
        "assumptions": [CRC_ASSUMPTION, "S-utf8 stub (ASCII names)"],
    },

    "C18": {
        "design_ref": "DESIGN.md section 4, C18",
        "technique": "bounded model checking of the compiled Rust (Kani/CBMC): exhaustive operation pairs/triples on two queues against per-queue reference models",
        "level_text": ("Bounded model checking of the name -> queue map of the log (real MemQueues; the std HashMap inside it is replaced, under the "
                       "verification guard, by an association list because hashbrown cannot be executed symbolically): every pair -- thorough: every "
                       "triple -- of operations {create, delete, append, truncate} addressed to two queues; after every operation each queue's "
                       "existence, next position and records (positions, symbolic payload bytes) are compared with its own reference model, so an "
                       "operation addressed to one queue that changes what the other returns is a counterexample. c06_gc2*: the same on the real MultiRecordLog while "
                       "a truncation or deletion of one queue makes garbage collection reclaim files (the other queue keeps its records and its file). "
                       "Restarts and crash recovery are not claimed."),
        "level_note": "trusted: kani-compiler, CBMC, CaDiCaL; the 60-line association-list stand-in for HashMap (src/lib.rs verif_map, guarded); operations are only issued to queues that exist (an Err(MissingQueue) value makes symex fork on a garbage reference, DESIGN B17)",
        "filters": ["c18_", "c06_gc2"],
        "quick": {"harnesses": [("real", "c18_iso*_q*"), ("real", "c06_gc2_q*")], "jobs": 14, "timeout": 1200},
        "thorough": {"harnesses": [("real", "c18_iso*"), ("real", "c06_gc2*")], "jobs": 10, "timeout": 2400},
        "rule": "case = one script over [create a, delete a, append a, truncate a, create b, delete b, append b, truncate b] (base-8 digits); after each step both queues are observed; counted from the symex log",
        "samples": ["c18_iso_q_002: scripts 16..23 of 8^2 (append a followed by each of the eight operations)", "c18_iso3_q_003: scripts 152..159 of 8^3"],
        "functions": ["mem::queues::MemQueues::{create_queue,delete_queue,append_record,truncate,range,next_position,contains_queue,list_queues,size,ack_position}",
                      "mem::queue::MemQueue::*", "verif_map::VecMap (stand-in)"],
        "bounds": {"quick": {"queues": 2, "script_length": "2 (all 64), 3 (64 of 512)"}, "thorough": {"script_length": "3 (all 512)"}},
        "outside": ["restarts / crash recovery / GC-triggered file deletion (MultiRecordLog)", "std HashMap itself", "more than two queues", "operations on missing queues (error values)"],
        "assumptions": ["HashMap<String, MemQueue> replaced by an insertion-ordered association list with the same observable behaviour for the methods MemQueues uses"],
    },

    "C13": {
        "design_ref": "DESIGN.md section 4, C13",
        "technique": "bounded model checking of the compiled Rust (Kani/CBMC): the real MultiRecordLog over stubbed I/O leaves, call scripts against a model",
        "level_text": ("Bounded model checking of the real MultiRecordLog (constructed through guarded hooks over stubbed I/O leaf functions): on a log "
                       "with two queues, three files and retained records, every single call and every call following a no-op / rejected call -- create of an "
                       "existing queue, append with the last position (no-op), with an older position (Past), empty batch -- is executed; for the rejected and "
                       "no-op calls the writer's cursor does not move, the outcome reports 0 bytes and no position, and every observable (queues, positions, "
                       "records, memory and disk usage) equals the model that ignored the call. 'No effect after a restart' follows from the unchanged cursor "
                       "only together with C07/C02 and is not claimed here; calls on MISSING queues are not executed (their error value makes symex fork, B17)."),
        "level_note": "trusted: kani-compiler, CBMC, CaDiCaL; I/O leaf stubs; association-list stand-in for HashMap; hooks MultiRecordLog::verif_new / RollingWriter::verif_new / Directory::verif_new",
        "filters": ["c13_"],
        "quick": {"harnesses": [("real", "c13_one_q*"), ("real", "c13_two_q*")], "jobs": 14, "timeout": 1500},
        "thorough": {"harnesses": [("real", "c13_one_q*"), ("real", "c13_two_*")], "jobs": 8, "timeout": 3000},
        "rule": ("non-trivial = the script contains a rejected / no-op call or makes GC reclaim a file, or >= 2 effective calls. case = one script of 1 or 2 calls over [create a, append a None / future / last (no-op) / older (Past) / empty batch / batch of 2, truncate a first / future, "
                 "create bq, append bq]; after every call the cursor, the outcome and all observables are compared with the model; counted from the symex log"),
        "samples": ["c13_one_q_004: script 4 of 11: append(Some(last-1)) -> Past, cursor unchanged", "c13_one_q_005: empty batch -> Ok(None, 0 bytes)",
                    "c13_two_q_012: script 45 of 121: append(Some(last)) [no-op] followed by append(Some(next+2))"],
        "functions": ["multi_record_log::MultiRecordLog::{create_queue,delete_queue,append_record,append_records,truncate,run_gc_if_necessary,record_empty_queues_position,persist,persist_on_policy,range,last_position,queue_exists,list_queues,resource_usage}",
                      "mem::queues::MemQueues::* (map stand-in)", "recordlog::writer::RecordWriter::write_record", "frame::writer::FrameWriter::write_frame",
                      "rolling::directory::{RollingWriter::{write (non-rolling path),persist,current_file,size}, Directory::{has_files_that_can_be_deleted,gc}}", "rolling::file_number::FileTracker::*",
                      "record::{MultiPlexedRecord::serialize, MultiRecord::{serialize,new_unchecked,next}}", "persist_policy::PersistState::{should_persist,update_persisted}"],
        "bounds": {"quick": {"queues": 2, "files": 3, "script_length": "1 (all 11), 2 (22 of 121: a no-op / Past call first)"}, "thorough": {"script_length": "2 (all 121)"}},
        "outside": ["calls on missing queues (MissingQueue errors)", "effect after a restart (open/replay)", "roll-over, crash, persist policies other than Always(Flush)"],
        "assumptions": ["MultiRecordLog constructed through guarded hooks (no directory scan, no replay): three tracked files, writer on the last one at offset 1000, queues as a replay would have left them",
                        "I/O leaves stubbed: <File as Write>::write and File::sync_data return Ok, std::fs::remove_file returns Ok, Directory::sync_directory skipped (guarded hook), rolling::directory::filepath returns an empty path (format! is not executable); crc32 constant",
                        "HashMap<String, MemQueue> replaced by an association list (guarded hook); calls that would return Err(MissingQueue) are not issued (B17)"],
    },

    "C14": {
        "design_ref": "DESIGN.md section 4, C14",
        "technique": "bounded model checking of the compiled Rust (Kani/CBMC): the real MultiRecordLog under three persist policies against one model",
        "level_text": ("Bounded model checking of the real MultiRecordLog (constructed through hooks over stubbed I/O leaves) under PersistPolicy::DoNothing, "
                       "Always(Flush) and Always(FlushAndFsync): every single call of the alphabet on the pre-populated log returns the same positions, eviction "
                       "counts, byte counts and errors and leaves the same observable state -- all three are compared with one and the same policy-free model. "
                       "OnDelay (reads the clock: a foreign call) and the state after drop + open are not covered."),
        "level_note": "trusted: as C13; the model is the oracle for all policies (C13's runs are the Always(Flush) leg)",
        "filters": ["c14_", "c13_one"],
        "quick": {"harnesses": [("real", "c14_pol*_q*"), ("real", "c13_one_q_00[0-2]")], "jobs": 14, "timeout": 1500},
        "thorough": {"harnesses": [("real", "c14_*"), ("real", "c13_one_q_0*")], "jobs": 10, "timeout": 3000},
        "rule": "case = (persist policy, one call); non-trivial = the call is a rejected / no-op call or makes GC reclaim a file; counted from the symex log",
        "samples": ["c14_pol1_q_001: DoNothing, append(None) on queue a", "c14_pol2_q_007: Always(FlushAndFsync), truncate(first) with GC"],
        "functions": ["persist_policy::{PersistPolicy -> PersistState, PersistState::should_persist, update_persisted}", "multi_record_log::MultiRecordLog::{persist_on_policy, persist, create_queue, append_records, truncate, delete_queue}",
                      "rolling::directory::RollingWriter::persist", "std::io::BufWriter::{write_all, flush}"],
        "bounds": {"quick": {"policies": "DoNothing, Always(Flush), Always(FlushAndFsync)", "script_length": 1}, "thorough": {"plus": "reclamation alphabet under the two other policies"}},
        "outside": ["OnDelay (Instant::now)", "state after drop + open", "explicit persist() calls interleaved"],
        "assumptions": ["as C13"],
    },
}
