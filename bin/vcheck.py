#!/usr/bin/env python3
"""Runner for the solver-based checks of /verif (see DESIGN.md section 2 and 6).

    bin/check <PROPERTY_ID> <quick|thorough>

Pipeline per check (everything is regenerated from /repo's current working tree on every run):

  1. kani-compiler (via `cargo kani --only-codegen`) lowers the crate + the harnesses of
     /verif/harness to one goto-program (symbol table) per #[kani::proof] harness, for every block
     geometry the check uses (cfg quickwit_oss_mrecordlog_verif_block16/32 or the real 32 KiB).
  2. the goto binaries are linked / instrumented exactly as kani-driver 0.68 does it
     (goto-cc x2, goto-instrument x3 -- the command lines printed by `cargo kani --verbose`).
  3. CBMC 6.11 (CaDiCaL; kissat as cross-check in the thorough tier) decides every harness; the runner
     parses CBMC's per-property verdicts.  Driving CBMC directly instead of through kani-driver
     buys: no JSON traces (a satisfied cover costs 10 s+ and hundreds of MB through kani-driver
     because the 10 000-byte Vec buffers of RecordReader/RecordWriter are dumped per step),
     per-harness parallelism, CBMC's own timing/size statistics for the evidence.
  4. verdict: exit 0 held / exit 1 VIOLATION (after native replay) / exit 2 INCONCLUSIVE.
"""
import concurrent.futures
import fnmatch
import glob
import json
import os
import re
import resource
import shutil
import signal
import subprocess
import sys
import time

VERIF = os.path.dirname(os.path.dirname(os.path.abspath(__file__)))
REPO = os.environ.get("VERIF_REPO", "/repo")
CACHE = os.path.join(VERIF, ".cache")
GUARD = "quickwit_oss_mrecordlog_verif"
KANI_LIB_C = os.path.expanduser("~/.kani/kani-0.68.0/library/kani/kani_lib.c")

GEO_CFG = {
    "16": ["--cfg", GUARD, "--cfg", GUARD + "_block16"],
    "32": ["--cfg", GUARD, "--cfg", GUARD + "_block32"],
    "real": ["--cfg", GUARD],
}

CBMC_BASE = [
    "--no-malloc-may-fail", "--no-undefined-shift-check", "--no-signed-overflow-check",
    "--nan-check", "--no-self-loops-to-assumptions", "--no-pointer-primitive-check",
    "--object-bits", "16", "--slice-formula",
    # arrays up to this size stay field-sensitive, i.e. constant-propagated per element (B14)
    "--max-field-sensitivity-array-size", "512",
]

sys.path.insert(0, os.path.join(VERIF, "bin"))
from registry import CHECKS  # noqa: E402


def log(msg):
    print(msg, flush=True)


def run(cmd, env=None, cwd=None, timeout=None, out=None, mem_gb=None):
    """Runs cmd in its own process group; on timeout the whole group is killed (cbmc runs under
    /usr/bin/time, killing only the direct child would orphan the solver)."""
    def limits():
        os.setsid()
        if mem_gb:
            lim = int(mem_gb * 1024 ** 3)
            resource.setrlimit(resource.RLIMIT_AS, (lim, lim))
    t0 = time.time()
    f = open(out, "w") if out else None
    p = subprocess.Popen(cmd, env=env, cwd=cwd, stdout=f if f else subprocess.PIPE,
                         stderr=subprocess.STDOUT, preexec_fn=limits)
    try:
        stdout, _ = p.communicate(timeout=timeout)
        rc = p.returncode
    except subprocess.TimeoutExpired:
        try:
            os.killpg(p.pid, signal.SIGKILL)
        except OSError:
            pass
        stdout, _ = p.communicate()
        rc = 124
    finally:
        if f:
            f.close()
    return rc, time.time() - t0, (stdout.decode("utf8", "replace") if stdout else "")


# -------------------------------------------------------------------------------------------------
# step 1: codegen
# -------------------------------------------------------------------------------------------------
def codegen(check_id, geo, filters, workdir, tier="quick", tag=""):
    target = os.path.join(workdir, "t" + geo + tag)
    # force a rebuild of the crate itself (never trust a stale artifact); dependencies stay cached
    for d in glob.glob(os.path.join(target, "kani", "*", "debug", "build", "mrecordlog")):
        shutil.rmtree(d, ignore_errors=True)
    for d in glob.glob(os.path.join(target, "kani", "*", "debug", ".fingerprint", "mrecordlog-*")):
        shutil.rmtree(d, ignore_errors=True)
    env = dict(os.environ)
    env.update({
        "CARGO_NET_OFFLINE": "true",
        "MRECORDLOG_VERIF_HARNESS_DIR": os.path.join(VERIF, "harness"),
        "RUSTFLAGS": " ".join(GEO_CFG[geo] + (["--cfg", "verif_thorough"] if tier == "thorough" else [])),
    })
    cmd = ["cargo", "kani", "--target-dir", target, "-Z", "stubbing", "--only-codegen",
           "--no-assertion-reach-checks"]
    for f in filters:
        cmd += ["--harness", f]
    logf = os.path.join(workdir, "codegen_%s%s.log" % (geo, tag))
    rc, dt, _ = run(cmd, env=env, cwd=REPO, timeout=1800, out=logf)
    if rc != 0:
        return None, dt, logf
    metas = glob.glob(os.path.join(target, "kani", "*", "debug", "build", "mrecordlog", "*", "out",
                                   "*.kani-metadata.json"))
    if len(metas) != 1:
        return None, dt, logf
    md = json.load(open(metas[0]))
    return md["proof_harnesses"], dt, logf


# -------------------------------------------------------------------------------------------------
# step 2+3: link, instrument, decide
# -------------------------------------------------------------------------------------------------
PROP_RE = re.compile(r"^\[(?P<name>[^\]]+)\] line (?P<line>\d+) (?P<desc>.*): (?P<st>SUCCESS|FAILURE|UNKNOWN|ERROR)$")


def parse_cbmc_log(path):
    res = {"props": [], "verdict": None, "symex_s": 0.0, "solver_s": 0.0, "decision_s": 0.0,
           "convert_s": 0.0, "variables": 0, "clauses": 0, "steps": 0, "vccs": 0, "vccs_remaining": 0,
           "solver_calls": 0, "marks": {}, "unwind_lines": 0, "max_rss_kb": 0, "error": None}
    pending = None
    cur_fn = None
    with open(path, errors="replace") as f:
        for line in f:
            line = line.rstrip("\n")
            if line.startswith("Unwinding loop") or line.startswith("Unwinding recursion"):
                res["unwind_lines"] += 1
                m = re.search(r"function verif_harness::\w+::mark_(\w+) ", line + " ")
                if m:
                    res["marks"][m.group(1)] = res["marks"].get(m.group(1), 0) + 1
                continue
            if pending is not None:
                pending += " " + line
                m = PROP_RE.match(pending)
                if m:
                    res["props"].append(m.groupdict())
                    pending = None
                continue
            if line.startswith("["):
                m = PROP_RE.match(line)
                if m:
                    res["props"].append(m.groupdict())
                elif re.match(r"^\[[^\]]+\] line \d+ ", line):
                    pending = line
                continue
            try:
                parse_stat_line(line, res)
            except (IndexError, ValueError):
                pass  # a log line cut short by a killed process
    return res


def parse_stat_line(line, res):
    if True:
        if True:
            if line.startswith("Runtime Symex:"):
                res["symex_s"] += float(line.split()[2].rstrip("s"))
            elif line.startswith("Runtime Solver:"):
                res["solver_s"] += float(line.split()[2].rstrip("s"))
                res["solver_calls"] += 1
            elif line.startswith("Runtime decision procedure:"):
                res["decision_s"] += float(line.split()[3].rstrip("s"))
            elif line.startswith("Runtime Convert SSA:"):
                res["convert_s"] += float(line.split()[3].rstrip("s"))
            elif line.startswith("size of program expression:"):
                res["steps"] = int(line.split()[4])
            elif line.startswith("Generated "):
                m = re.match(r"Generated (\d+) VCC\(s\), (\d+) remaining", line)
                if m:
                    res["vccs"], res["vccs_remaining"] = int(m.group(1)), int(m.group(2))
            elif re.match(r"^\d+ variables, \d+ clauses", line):
                a = line.split()
                res["variables"] = max(res["variables"], int(a[0]))
                res["clauses"] = max(res["clauses"], int(a[2]))
            elif line.startswith("VERIFICATION SUCCESSFUL"):
                res["verdict"] = "SUCCESSFUL"
            elif line.startswith("VERIFICATION FAILED"):
                res["verdict"] = "FAILED"
            elif line.startswith("MAXRSS_KB="):
                res["max_rss_kb"] = int(line.split("=")[1])
            elif "Out of memory" in line or "std::bad_alloc" in line or line.startswith("CONVERSION ERROR") \
                    or line.startswith("Usage error") or "PARSING ERROR" in line:
                res["error"] = line.strip()
    return res


def classify(h, parsed):
    """-> (status, details) with status in held / violation / inconclusive."""
    short = h["short"]
    is_mf = short.endswith("_mf")
    if parsed["verdict"] is None:
        return "inconclusive", ["no verdict from CBMC (%s)" % (parsed["error"] or "timeout / out of memory / crash")]
    real_fail, unwind_fail, mf_hit, covers_sat, covers_unsat = [], [], [], [], []
    for p in parsed["props"]:
        name, desc, st = p["name"], p["desc"], p["st"]
        if ".cover." in name:
            (covers_sat if st == "FAILURE" else covers_unsat).append(desc)
            continue
        if st == "SUCCESS":
            continue
        if ".unwind." in name or "unwinding assertion" in desc or ".recursion" in name:
            unwind_fail.append("%s: %s" % (name, desc))
        elif "MUST-FAIL-WITNESS" in desc:
            mf_hit.append(name)
        else:
            real_fail.append("%s line %s: %s [%s]" % (name, p["line"], desc, st))
    det = {"covers_satisfied": covers_sat, "covers_unsatisfied": covers_unsat}
    if unwind_fail:
        return "inconclusive", ["unwinding bound too small: " + "; ".join(unwind_fail[:5])], det
    if real_fail:
        return "violation", real_fail, det
    if is_mf and not mf_hit:
        return "inconclusive", ["must-fail witness was NOT reached: harness is vacuous"], det
    if not is_mf and mf_hit:
        return "inconclusive", ["unexpected must-fail marker in a normal harness"], det
    if covers_unsat:
        return "inconclusive", ["reachability witness(es) unsatisfied: " + "; ".join(covers_unsat[:5])], det
    return "held", [], det


SLOTS = int(os.environ.get("VERIF_SLOTS", "14"))


def acquire_slot():
    """System-wide cap on concurrently running solver jobs (flock on /verif/.cache/slots/<i>), so that
    several checks started in parallel share the machine instead of oversubscribing its memory."""
    import fcntl
    d = os.path.join(CACHE, "slots")
    os.makedirs(d, exist_ok=True)
    while True:
        for i in range(SLOTS):
            f = open(os.path.join(d, "%d.lock" % i), "w")
            try:
                fcntl.flock(f, fcntl.LOCK_EX | fcntl.LOCK_NB)
                return f
            except OSError:
                f.close()
        time.sleep(0.5)


def decide(h, workdir, solver, timeout, mem_gb, extra_flags):
    """link + instrument + cbmc for one harness.  Returns result dict."""
    slot = acquire_slot()
    try:
        return decide_locked(h, workdir, solver, timeout, mem_gb, extra_flags)
    finally:
        slot.close()


def decide_locked(h, workdir, solver, timeout, mem_gb, extra_flags):
    tag = "%s.%s.%s" % (h["short"], h["geo"], solver)
    out = os.path.join(workdir, tag + ".goto")
    logf = os.path.join(workdir, tag + ".log")
    t0 = time.time()
    prep = [
        ["goto-cc", h["goto_file"], KANI_LIB_C, "-o", out],
        ["goto-cc", out, "--function", h["mangled_name"], "-o", out],
        ["goto-instrument", "--add-library", "--no-malloc-may-fail", out, out],
        ["goto-instrument", "--generate-function-body-options", "assert-false-assume-false",
         "--generate-function-body", ".*", "--drop-unused-functions", out, out],
        ["goto-instrument", "--ensure-one-backedge-per-target", out, out],
    ]
    for c in prep:
        rc, _, txt = run(c, timeout=600)
        if rc != 0:
            return {"harness": h["short"], "geo": h["geo"], "solver": solver, "status": "inconclusive",
                    "details": ["%s failed rc=%d: %s" % (c[0], rc, txt[-300:])], "wall_s": time.time() - t0,
                    "log": logf}
    unwind = h["attributes"].get("unwind_value") or 1
    # B13: bound the recursion of io::Error's drop glue (Box<dyn Error> vtable) to 2; the recursion
    # unwinding assertion stays on, so a reachable deeper recursion is reported, not hidden.
    rc, _, txt = run(["goto-instrument", "--list-goto-functions", out], timeout=300)
    uws = []
    for line in txt.splitlines():
        if line.startswith("std::ptr::drop_glue::<std::io::Error> /*"):
            m = re.search(r"/\* (\S+?)[, ]", line + " ")
            if m and "body not available" not in line:
                uws.append(m.group(1) + ":2")
    extra_flags = list(extra_flags) + (["--unwindset", ",".join(uws)] if uws else [])
    solver_flags = ["--external-sat-solver", "kissat"] if solver == "kissat" else ["--sat-solver", solver]
    cmd = ["/usr/bin/time", "-f", "MAXRSS_KB=%M", "cbmc"] + CBMC_BASE + ["--unwind", str(unwind)] + \
        solver_flags + list(extra_flags) + [out, "--verbosity", "8"]
    rc, dt, _ = run(cmd, timeout=timeout, out=logf, mem_gb=mem_gb)
    if os.environ.get("VERIF_KEEP_GOTO") != "1":
        try:
            os.remove(out)
        except OSError:
            pass
    parsed = parse_cbmc_log(logf)
    if rc == 124:
        parsed["verdict"] = None
        parsed["error"] = "timeout after %ds" % timeout
    c = classify(h, parsed)
    status, details = c[0], c[1]
    det = c[2] if len(c) > 2 else {}
    r = {"harness": h["short"], "geo": h["geo"], "solver": solver, "status": status, "details": details,
         "unwind": unwind, "wall_s": round(time.time() - t0, 2), "cbmc_rc": rc, "log": logf,
         "properties": len(parsed["props"]),
         "properties_failed": sum(1 for p in parsed["props"] if p["st"] != "SUCCESS" and ".cover." not in p["name"]),
         "stubs": ["%s -> %s" % (s["original"].replace(" ", ""), s["replacement"]) for s in h["attributes"].get("stubs", [])]}
    for k in ("symex_s", "solver_s", "decision_s", "convert_s", "variables", "clauses", "steps", "vccs",
              "vccs_remaining", "solver_calls", "marks", "max_rss_kb"):
        r[k] = parsed[k]
    r.update(det)
    return r


# -------------------------------------------------------------------------------------------------
# replay of a counterexample against the real (native) build
# -------------------------------------------------------------------------------------------------
def replay(check_id, h, workdir):
    """Re-run the failing harness through kani-driver with concrete playback, extract the generated
    unit test and execute it natively (dev and release) with `cargo kani playback`.
    Returns (reproduced: bool|None, path)."""
    rdir = os.path.join(VERIF, "replays", check_id)
    os.makedirs(rdir, exist_ok=True)
    env = dict(os.environ)
    env.update({"CARGO_NET_OFFLINE": "true",
                "MRECORDLOG_VERIF_HARNESS_DIR": os.path.join(VERIF, "harness"),
                "RUSTFLAGS": " ".join(GEO_CFG[h["geo"]] + ["--cfg", "verif_thorough"])})
    target = os.path.join(workdir, "t" + h["geo"] + "_replay")
    cmd = ["cargo", "kani", "--target-dir", target, "-Z", "stubbing", "--harness", h["pretty_name"], "--exact",
           "--no-assertion-reach-checks", "-Z", "concrete-playback", "--concrete-playback=print",
           "-Z", "unstable-options", "--cbmc-args", "--max-field-sensitivity-array-size", "512"]
    out = os.path.join(rdir, h["short"] + "." + h["geo"] + ".playback.log")
    rc, dt, _ = run(cmd, env=env, cwd=REPO, timeout=3600, out=out, mem_gb=40)
    txt = open(out, errors="replace").read()
    m = re.search(r"```\s*\n(/// Test generated for harness.*?)```", txt, re.S) or \
        re.search(r"(#\[test\]\s*\nfn kani_concrete_playback_.*?\n}\n)", txt, re.S)
    if not m:
        return None, out
    test_src = m.group(1)
    # native execution: copy the harness dir, append the generated test to the module that holds the
    # harness, and run `cargo kani playback` against that copy
    hdir = os.path.join(rdir, h["short"] + "." + h["geo"] + ".harness")
    shutil.rmtree(hdir, ignore_errors=True)
    shutil.copytree(os.path.join(VERIF, "harness"), hdir)
    modfile = os.path.join(hdir, os.path.basename(h["original_file"]))
    with open(modfile, "a") as f:
        f.write("\n// ---- counterexample generated by Kani concrete playback ----\n"
                "mod kani_replay_case {\n    #[allow(unused_imports)]\n    use crate::%s;\n%s\n}\n" % (h["pretty_name"], test_src))
    env["MRECORDLOG_VERIF_HARNESS_DIR"] = hdir
    tname = re.search(r"fn (kani_concrete_playback_\w+)", test_src).group(1)
    reproduced = False
    logs = []
    for prof in ([], ["--release"]):
        lf = os.path.join(rdir, "%s.%s.native%s.log" % (h["short"], h["geo"], "_release" if prof else "_dev"))
        env2 = dict(env)
        env2["CARGO_TARGET_DIR"] = target + "_native"
        c = ["cargo", "kani", "playback", "-Z", "concrete-playback"] + prof + ["--", tname]
        rc, dt, _ = run(c, env=env2, cwd=REPO, timeout=1800, out=lf)
        t = open(lf, errors="replace").read()
        logs.append(lf)
        if re.search(r"test result: FAILED|panicked at", t):
            reproduced = True
    shutil.rmtree(target, ignore_errors=True)
    return reproduced, modfile


# -------------------------------------------------------------------------------------------------
def load_known_findings():
    p = os.path.join(VERIF, "known_findings.json")
    if not os.path.exists(p):
        return []
    return json.load(open(p)).get("findings", [])


def main():
    if len(sys.argv) < 3:
        print("usage: check <PROPERTY_ID> <quick|thorough>")
        return 2
    check_id, tier = sys.argv[1], sys.argv[2]
    if check_id not in CHECKS:
        print("unknown check", check_id)
        return 2
    seed = int(os.environ.get("VERIF_SEED", "0") or 0)
    spec = CHECKS[check_id]
    tspec = spec[tier]
    jobs = int(os.environ.get("VERIF_JOBS", tspec.get("jobs", 8)))
    workdir = os.path.join(CACHE, check_id + "_" + tier)
    os.makedirs(workdir, exist_ok=True)
    for f in glob.glob(os.path.join(workdir, "*.log")):
        os.remove(f)
    evid_path = os.path.join(VERIF, "evidence", check_id + ".json")
    os.makedirs(os.path.dirname(evid_path), exist_ok=True)
    t_start = time.time()

    # ---- 1. codegen per geometry (in parallel) -------------------------------------------------
    geos = sorted({g for g, _ in tspec["harnesses"]})
    filters = spec["filters"]
    harnesses = []
    codegen_s = {}
    # harnesses are lowered in groups (separate kani builds): a source change that breaks the binding
    # of one group's stub (e.g. a new signature of the private crc32) must not take the un-stubbed
    # harnesses of another group down with it
    groups_spec = spec.get("codegen_groups", {})
    builds = []
    for g in geos:
        gl = groups_spec.get(g) or [filters]
        for gi, flt in enumerate(gl):
            builds.append((g, flt, ("_g%d" % gi) if len(gl) > 1 else ""))
    codegen_failed = []
    with concurrent.futures.ThreadPoolExecutor(max_workers=max(1, len(builds))) as ex:
        futs = [(b, ex.submit(codegen, check_id, b[0], b[1], workdir, tier, b[2])) for b in builds]
        for (g, flt, tag), fu in futs:
            hs, dt, logf = fu.result()
            codegen_s[g + tag] = round(dt, 1)
            if hs is None:
                tail = open(logf, errors="replace").read()
                errs = [l for l in tail.splitlines() if l.startswith("error")][:3]
                log("  codegen FAILED for geometry %s group %s: %s (log %s)" % (g, flt, " | ".join(errs)[:400], logf))
                codegen_failed.append({"harness": "codegen[%s%s]" % (g, tag), "geo": g, "solver": "-", "status": "inconclusive",
                                       "details": ["kani codegen failed for harness group %s: %s" % (flt, " | ".join(errs)[:300])],
                                       "wall_s": round(dt, 1), "log": logf})
                continue
            for h in hs:
                h["geo"] = g
                h["short"] = h["pretty_name"].split("::")[-1]
                if not any(x["short"] == h["short"] and x["geo"] == g for x in harnesses):
                    harnesses.append(h)
    selected = []
    for g, pat in tspec["harnesses"]:
        m = [h for h in harnesses if h["geo"] == g and fnmatch.fnmatch(h["short"], pat)]
        if not m:
            if codegen_failed:
                continue  # its group did not build: already recorded as inconclusive
            log("INCONCLUSIVE property=%s no harness matches %s at geometry %s" % (check_id, pat, g))
            return 2
        for h in m:
            if h not in selected:
                selected.append(h)
    log("%s/%s: %d harnesses over geometries %s (codegen %s s), %d parallel jobs" %
        (check_id, tier, len(selected), geos, codegen_s, jobs))

    # ---- 2. decide --------------------------------------------------------------------------------
    solvers = tspec.get("solvers", ["cadical"])
    timeout = int(os.environ.get("VERIF_TIMEOUT", tspec.get("timeout", 1500)))
    mem_gb = tspec.get("mem_gb", 12)
    tasks = []
    for h in selected:
        for s in solvers:
            if s != solvers[0] and h["short"].endswith("_mf"):
                continue
            tasks.append((h, s))
    results = []
    with concurrent.futures.ThreadPoolExecutor(max_workers=jobs) as ex:
        futs = [ex.submit(decide, h, workdir, s, timeout, mem_gb, spec.get("cbmc_flags", {}).get(h["short"], []))
                for h, s in tasks]
        for h_s, fu in zip(tasks, futs):
            r = fu.result()
            results.append(r)
            log("  %-34s geo=%-4s %-8s %-12s props=%-5d symex=%.1fs solve=%.1fs wall=%.0fs rss=%dMB %s" % (
                r["harness"], r["geo"], r["solver"], r["status"].upper(), r.get("properties", 0),
                r.get("symex_s", 0), r.get("decision_s", 0), r["wall_s"], r.get("max_rss_kb", 0) // 1024,
                "; ".join(r["details"])[:300]))

    # solver cross-check: same verdict from every solver
    by_h = {}
    for r in results:
        by_h.setdefault((r["harness"], r["geo"]), []).append(r)
    for k, rs in by_h.items():
        if len({r["status"] for r in rs}) > 1:
            for r in rs:
                if r["status"] == "held":
                    r["status"] = "inconclusive"
                    r["details"] = ["solvers disagree on this harness"]

    # ---- 3. verdict -------------------------------------------------------------------------------
    known = [k for k in load_known_findings() if k.get("property") == check_id and k.get("status") == "open"]
    violations, inconclusive = [], []
    exit_code = 0
    results = codegen_failed + results
    for r in results:
        if r["status"] == "inconclusive":
            inconclusive.append(r)
    viol = sorted([r for r in results if r["status"] == "violation"], key=lambda r: (r["harness"].endswith("_mf"), r.get("wall_s", 0)))
    seen = set()
    n_viol = 0
    replays_tried = 0
    for r in viol:
        key = (r["harness"], r["geo"])
        if key in seen:
            continue
        seen.add(key)
        kf = [k for k in known if fnmatch.fnmatch(r["harness"], k.get("harness", "")) and
              any(k.get("match", "\0") in d for d in r["details"])]
        if kf and len(kf) >= len(r["details"]):
            for k in kf:
                log("KNOWN-FINDING: property=%s %s" % (check_id, k["what"]))
            continue
        h = [x for x in selected if x["short"] == r["harness"] and x["geo"] == r["geo"]][0]
        log("  counterexample candidate in %s: %s" % (r["harness"], "; ".join(r["details"])[:600]))
        if n_viol > 0:
            # one reproduced counterexample decides the run; further candidates are listed, not replayed
            r["replay"] = {"reproduced": None, "path": r["log"], "note": "not replayed: an earlier counterexample of this run already reproduced"}
            log("  (also failing, not replayed: %s, CBMC log %s)" % (r["harness"], r["log"]))
            continue
        if os.environ.get("VERIF_NO_REPLAY") == "1":
            reproduced, path = True, r["log"]
        elif replays_tried >= 3:
            reproduced, path = None, r["log"]
        else:
            replays_tried += 1
            reproduced, path = replay(check_id, h, workdir)
        r["replay"] = {"reproduced": reproduced, "path": path}
        if reproduced:
            n_viol += 1
            log("VIOLATION property=%s replay=%s" % (check_id, path))
            exit_code = 1
        else:
            log("INCONCLUSIVE property=%s solver counterexample for %s did not reproduce natively (%s): "
                "encoding or stub problem, see %s" % (check_id, r["harness"], reproduced, path))
            inconclusive.append(r)
    if exit_code == 0 and inconclusive:
        for r in inconclusive:
            log("INCONCLUSIVE property=%s harness=%s: %s (log %s)" % (check_id, r["harness"],
                                                                      "; ".join(r["details"])[:400], r.get("log")))
        exit_code = 2
    for d in glob.glob(os.path.join(workdir, "*_native")):
        shutil.rmtree(d, ignore_errors=True)
    wall = time.time() - t_start
    write_evidence(evid_path, check_id, tier, seed, spec, results, wall, n_viol,
                   None if exit_code != 2 else "inconclusive", codegen_s)
    log("%s/%s: %s in %.0fs (%d harness runs, %d held, %d inconclusive, %d violations)" % (
        check_id, tier, {0: "HELD", 1: "VIOLATION", 2: "INCONCLUSIVE"}[exit_code], wall, len(results),
        sum(1 for r in results if r["status"] == "held"), len(inconclusive), n_viol))
    return exit_code


def write_evidence(path, check_id, tier, seed, spec, results, wall, n_viol, note, codegen_s):
    held = [r for r in results if r["status"] == "held"]
    marks = {}
    base_solver = next((r["solver"] for r in results if r["solver"] != "-"), "cadical")
    for r in results:
        if r["solver"] != base_solver:
            continue
        for k, v in r.get("marks", {}).items():
            marks[k] = marks.get(k, 0) + v
    cases = marks.get("case", 0)
    nontrivial = marks.get("nontrivial", 0)
    samples = []
    for r in results[:200]:
        for c in r.get("covers_satisfied", []):
            s = "%s[B=%s]: witness reached: %s" % (r["harness"], r["geo"], c)
            if s not in samples:
                samples.append(s)
    for s in spec.get("samples", []):
        samples.append(s)
    if not samples:
        samples = ["(no run)"]
    cov = {
        "evaluations": max(cases, len(results)),
        "distinct_nontrivial": nontrivial if nontrivial else len({(r["harness"], r["geo"]) for r in held}),
        "rule": spec["rule"],
        "samples": samples[:40],
        "exhaustive": False,
        "explanation": spec.get("explanation", ""),
        "cases_symbolically_executed": cases,
        "marks": marks,
        "solver_queries": sum(r.get("solver_calls", 0) for r in results),
        "harness_runs": len(results),
        "harness_runs_held": len(held),
        "properties_decided": sum(r.get("properties", 0) for r in results),
        "functions_encoded": spec.get("functions", []),
        "stubs": sorted({s for r in results for s in r.get("stubs", [])}),
        "bounds": spec.get("bounds", {}).get(tier, spec.get("bounds", {})),
        "outside_claim": spec.get("outside", []),
        "solver_time_s": round(sum(r.get("decision_s", 0) for r in results), 2),
        "symex_time_s": round(sum(r.get("symex_s", 0) for r in results), 2),
        "codegen_time_s": codegen_s,
        "max_rss_kb": max([r.get("max_rss_kb", 0) for r in results] or [0]),
        "ssa_steps": sum(r.get("steps", 0) for r in results),
        "sat_variables_max": max([r.get("variables", 0) for r in results] or [0]),
        "per_harness": [{k: r.get(k) for k in ("harness", "geo", "solver", "status", "unwind", "properties",
                                               "properties_failed", "symex_s", "decision_s", "wall_s",
                                               "variables", "clauses", "steps", "vccs", "marks", "max_rss_kb",
                                               "details", "replay")} for r in results],
        "engine": "kani-compiler 0.68.0 (MIR->goto) + CBMC 6.11.0, driven as kani-driver does",
    }
    if note:
        cov["note"] = note
    ev = {
        "property_id": check_id, "tier": tier, "seed": seed, "level": "model_checking",
        "coverage": cov, "assumptions": spec.get("assumptions", []), "wall_s": round(wall, 1),
        "violations": n_viol,
    }
    with open(path, "w") as f:
        json.dump(ev, f, indent=1)


if __name__ == "__main__":
    sys.exit(main())
