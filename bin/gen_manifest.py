#!/usr/bin/env python3
"""Writes /verif/MANIFEST.json from bin/registry.py (single source of truth for the checks)."""
import json, os, sys
V = os.path.dirname(os.path.dirname(os.path.abspath(__file__)))
sys.path.insert(0, os.path.join(V, "bin"))
from registry import CHECKS, NOT_APPLICABLE, HOOK_COMMITS

checks = []
for cid in sorted(CHECKS):
    c = CHECKS[cid]
    checks.append({
        "property_id": cid,
        "quick_cmd": "bin/check %s quick" % cid,
        "thorough_cmd": "bin/check %s thorough" % cid,
        "evidence_file": "evidence/%s.json" % cid,
        "replay_cmd_template": "bin/replay {path}",
        "engine": "kani+cbmc",
        "level_claimed": {"category": "model_checking", "text": c["level_text"], "design_ref": c["design_ref"]},
        "level_note": c["level_note"],
        "technique": c["technique"],
    })
man = {
    "version": 1,
    "setup_cmd": "bin/setup",
    "hooks": {
        "guard": "quickwit_oss_mrecordlog_verif",
        "enable": "RUSTFLAGS='--cfg quickwit_oss_mrecordlog_verif [--cfg quickwit_oss_mrecordlog_verif_block16|_block32]' "
                  "MRECORDLOG_VERIF_HARNESS_DIR=/verif/harness cargo kani --only-codegen -Z stubbing  (issued by bin/check)",
        "baseline_off_cmd": "cd /repo && (cargo nextest run --workspace --no-fail-fast --test-threads 8 --offline || cargo test --workspace --no-fail-fast --offline)",
        "source_commits": HOOK_COMMITS,
        "add_only": True,
    },
    "engines": [{
        "name": "kani+cbmc", "path": "bin/vcheck.py", "serves_properties": sorted(CHECKS),
        "kind_free_text": "bounded symbolic execution of the compiled crate: kani-compiler 0.68 (rustc MIR -> goto-program) "
                          "+ CBMC 6.11 (CaDiCaL, kissat cross-check); #[kani::proof] harnesses in /verif/harness are compiled "
                          "inside the crate through a guarded include hook",
    }],
    "checks": checks,
    "notes": "Every claim is bounded (geometry, sizes, unwindings: see evidence/<id>.json coverage.bounds and DESIGN.md section 4). "
             "exit 2 + an INCONCLUSIVE line = solver timeout / out of memory / unwinding bound too small / unreproducible counterexample.",
    "not_applicable": [{"property_id": k, "reason": v} for k, v in sorted(NOT_APPLICABLE.items()) if k not in CHECKS],
}
json.dump(man, open(os.path.join(V, "MANIFEST.json"), "w"), indent=1)
print("MANIFEST.json: %d checks, %d not applicable" % (len(checks), len(man["not_applicable"])))
