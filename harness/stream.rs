// WAL-stream layer harnesses: RecordWriter/FrameWriter -> FrameReader/RecordReader.
// Properties: C07 (round trip), C15 (byte accounting), C02/C12 (torn writes), C08/C09 (damage).

use std::io;

use crate::error::ReadRecordError;
use crate::frame::{FrameReader, FrameType, FrameWriter, ReadFrameError, HEADER_LEN};
use crate::recordlog::{RecordReader, RecordWriter};
use crate::{BlockRead, BlockWrite, PersistAction, Serializable, BLOCK_NUM_BYTES};

/// Longest entry used by the small-geometry harnesses.
pub(crate) const MAXL: usize = 3 * B;

/// Reads the next entry; any error is a harness failure (round-trip harnesses only).
pub(crate) fn read_ok<'a>(reader: &'a mut RecordReader<ArrR>) -> Option<Raw<'a>> {
    match reader.read_record::<Raw>() {
        Ok(opt) => opt,
        Err(e) => {
            std::mem::forget(e);
            panic!("reader reported an error on an undamaged stream");
        }
    }
}

pub(crate) fn same_bytes(a: &[u8], b: &[u8]) -> bool {
    if a.len() != b.len() {
        return false;
    }
    let mut i = 0;
    while i < a.len() {
        if a[i] != b[i] {
            return false;
        }
        i += 1;
    }
    true
}

pub(crate) fn blocks_for(cursor: usize) -> usize {
    let nb = (cursor + B - 1) / B;
    if nb == 0 {
        1
    } else {
        nb
    }
}

// ---------------------------------------------------------------------------------------------
// C07-A / C15-small: three entries, (alignment x length x follower), payload bytes symbolic
// ---------------------------------------------------------------------------------------------
fn c07_roundtrip_case(l0: usize, l1: usize, l2: usize, p0: &[u8], p1: &[u8], p2: &[u8]) {
    mark_case();
    crc_writer_side();
    let mut w = new_writer(ArrW::new());
    let c0 = w.get_underlying_wrt().cursor;
    let n0 = w.write_record(Raw(&p0[..l0])).unwrap();
    let c1 = w.get_underlying_wrt().cursor;
    let n1 = w.write_record(Raw(&p1[..l1])).unwrap();
    let c2 = w.get_underlying_wrt().cursor;
    let n2 = w.write_record(Raw(&p2[..l2])).unwrap();
    let c3 = w.get_underlying_wrt().cursor;
    // C15 at this layer: the returned count is the cursor advance == header+payload+padding
    assert!(n0 as usize == c1 - c0, "write_record count != cursor advance (entry 0)");
    assert!(n1 as usize == c2 - c1, "write_record count != cursor advance (entry 1)");
    assert!(n2 as usize == c3 - c2, "write_record count != cursor advance (entry 2)");
    let (f1, frames1) = ref_entry_footprint(c1, l1);
    assert!(n0 as usize == ref_entry_footprint(c0, l0).0, "footprint of entry 0");
    assert!(n1 as usize == f1, "footprint of entry 1");
    assert!(n2 as usize == ref_entry_footprint(c2, l2).0, "footprint of entry 2");
    if frames1 >= 2 || B - c1 % B < H || c2 % B == 0 {
        mark_nontrivial();
    }

    let data = w.get_underlying_wrt().buf;
    crc_reader_side(0);
    let mut r = RecordReader::open(ArrR::new(data, blocks_for(c3)));
    {
        let e = read_ok(&mut r).expect("entry 0 missing");
        assert!(same_bytes(e.0, &p0[..l0]), "entry 0 differs");
    }
    {
        let e = read_ok(&mut r).expect("entry 1 missing");
        assert!(same_bytes(e.0, &p1[..l1]), "entry 1 differs");
    }
    {
        let e = read_ok(&mut r).expect("entry 2 missing");
        assert!(same_bytes(e.0, &p2[..l2]), "entry 2 differs");
    }
    assert!(read_ok(&mut r).is_none(), "reader delivered more than was written");
}

/// lengths of entry 1 that sit on the frame-split boundaries of the geometry
const L1_EDGE: [usize; 8] = [0, 1, B - H - 1, B - H, B - H + 1, 2 * (B - H), 2 * B, 3 * B];

/// l0 = L0 x l1 in L1_EDGE[K_LO..=K_HI] x l2 = 1
fn c07_rt_edges<const L0: usize, const K_LO: usize, const K_HI: usize>() {
    let p0: [u8; B + H + 1] = kani::any();
    let p1: [u8; MAXL] = kani::any();
    let p2: [u8; B] = kani::any();
    let mut k = K_LO;
    while k <= K_HI {
        c07_roundtrip_case(L0, L1_EDGE[k], 1, &p0, &p1, &p2);
        k += 1;
    }
}

/// full cross product for one l0: l1 in L1_LO..=L1_HI, l2 in {0, 1, B}
fn c07_rt_full<const L0: usize, const L1_LO: usize, const L1_HI: usize>() {
    let p0: [u8; B + H + 1] = kani::any();
    let p1: [u8; MAXL] = kani::any();
    let p2: [u8; B] = kani::any();
    let l2s = [0usize, 1, B];
    let mut l1 = L1_LO;
    while l1 <= L1_HI {
        let mut k = 0;
        while k < 3 {
            c07_roundtrip_case(L0, l1, l2s[k], &p0, &p1, &p2);
            k += 1;
        }
        l1 += 1;
    }
}

/// the follower entry: empty and one full block, at the three interesting alignments
/// (entry 0 leaves H bytes -> empty First frame; H-1 -> padding; 0 -> block end)
fn c07_rt_follow<const A: usize>() {
    let p0: [u8; B + H + 1] = kani::any();
    let p1: [u8; MAXL] = kani::any();
    let p2: [u8; B] = kani::any();
    let l0s = [B - 2 * H, B - 2 * H + 1, B - H];
    let l1s = [0usize, B - H, 3 * B];
    let l2s = [0usize, B];
    let mut b = 0;
    while b < 3 {
        let mut c = 0;
        while c < 2 {
            c07_roundtrip_case(l0s[A], l1s[b], l2s[c], &p0, &p1, &p2);
            c += 1;
        }
        b += 1;
    }
}

macro_rules! shard {
    ($name:ident, $unwind:expr, $f:ident $(, $arg:expr)*) => {
        #[kani::proof]
        #[kani::unwind($unwind)]
        #[kani::stub(crate::frame::header::crc32, crc_stub)]
        pub(crate) fn $name() {
            $f::<$({ $arg }),*>()
        }
    };
}
macro_rules! shard_mf {
    ($name:ident, $unwind:expr, $f:ident $(, $arg:expr)*) => {
        #[kani::proof]
        #[kani::unwind($unwind)]
        #[kani::stub(crate::frame::header::crc32, crc_stub)]
        pub(crate) fn $name() {
            $f::<$({ $arg }),*>();
            must_fail_witness();
        }
    };
}

include!(concat!(env!("MRECORDLOG_VERIF_HARNESS_DIR"), "/shards_stream.rs"));

// ---------------------------------------------------------------------------------------------
// C07-B / C15-real: split and accounting arithmetic at the real 32 KiB geometry.
// Start cursor and entry length are *symbolic*; no byte is stored (CurW) so nothing is read back.
// ---------------------------------------------------------------------------------------------
#[cfg(not(any(quickwit_oss_mrecordlog_verif_block16, quickwit_oss_mrecordlog_verif_block32)))]
mod real_geometry {
    use super::*;

    fn real_accounting<const MAX_BLOCKS: usize>() {
        let start: usize = kani::any();
        let len: usize = kani::any();
        kani::assume(start < 4 * B);
        kani::assume(len <= MAX_BLOCKS * B);
        crc_writer_side();
        let mut w = RecordWriter::from(FrameWriter::create(CurW {
            cursor: start,
            num_writes: 0,
            min_remaining_at_frame: B,
        }));
        let n = w.write_record(Zeros(len)).unwrap() as usize;
        let end = w.get_underlying_wrt().cursor;
        let writes = w.get_underlying_wrt().num_writes;
        let (foot, frames) = ref_entry_footprint(start, len);
        assert!(n == end - start, "write_record count != cursor advance");
        assert!(n == foot, "write_record count != padding + headers + payload");
        assert!(n > 0, "an entry is never free");
        assert!(n >= len + H, "at least one header");
        // every frame costs one write, padding costs one more
        assert!(writes == frames || writes == frames + 1, "number of device writes");
        assert!(frames <= len / (B - H) + 2, "frame count bound");
        kani::cover!(frames >= 4, "entry spans >= 4 frames");
        kani::cover!(B - start % B < H && len > 0, "padding before the first frame");
        kani::cover!(B - start % B == H && len > 0, "empty first frame");
        kani::cover!(end % B == 0, "entry ends exactly at a block end");
        kani::cover!(len == 0, "empty entry");
    }

    fn real_frame<const DUMMY: usize>() {
        // write_frame alone: return value = padding + header + payload for every legal payload
        let start: usize = kani::any();
        let len: usize = kani::any();
        kani::assume(start < 2 * B);
        crc_writer_side();
        let mut fw = FrameWriter::create(CurW {
            cursor: start,
            num_writes: 0,
            min_remaining_at_frame: B,
        });
        let max = fw.max_writable_frame_length();
        kani::assume(len <= max);
        let rem = B - start % B;
        assert!(max == if rem >= H { rem - H } else { B - H });
        let payload = vec![0u8; len];
        let n = fw.write_frame(FrameType::Full, &payload).unwrap();
        let end = fw.get_underlying_wrt().cursor;
        let pad = if rem < H { rem } else { 0 };
        assert!(n == pad + H + len, "write_frame count");
        assert!(end - start == n, "write_frame count != cursor advance");
        // the frame itself never crosses a block boundary
        assert!((start + pad) / B == (end - 1) / B, "frame crosses a block boundary");
        kani::cover!(pad > 0, "padding written");
        kani::cover!(end % B == 0, "frame ends at block end");
    }

    shard!(c15_real_q, 9, real_accounting, 3);
    shard!(c15_real_frame_q, 3, real_frame, 0);
    shard!(c15_real_t, 16, real_accounting, 10);
    shard_mf!(c15_real_q_mf, 9, real_accounting, 3);
}

// ---------------------------------------------------------------------------------------------
// The real checksum (no S-crc stub): frame::header::crc32 == CRC-32/IEEE of [frame_type] ++ payload.
// crc32fast's CPU-feature dispatch (cpuid, pclmulqdq) is not executable; its portable baseline
// implementation is selected by stubbing the *dispatcher* only.
// ---------------------------------------------------------------------------------------------
#[cfg(quickwit_oss_mrecordlog_verif_block16)]
pub(crate) mod real_crc {
    use super::*;

    pub(crate) fn no_specialized(_init: u32, _amount: u64) -> Option<crc32fast::Hasher> {
        None
    }

    /// bitwise reference: reflected polynomial 0xEDB88320, init and final xor 0xFFFFFFFF
    fn ref_crc32(t: u8, data: &[u8]) -> u32 {
        let mut crc: u32 = !0;
        let mut i = 0;
        while i <= data.len() {
            let byte = if i == 0 { t } else { data[i - 1] };
            crc ^= byte as u32;
            let mut k = 0;
            while k < 8 {
                crc = if crc & 1 != 0 { (crc >> 1) ^ 0xEDB8_8320 } else { crc >> 1 };
                k += 1;
            }
            i += 1;
        }
        !crc
    }

    fn any_type() -> FrameType {
        let k: u8 = kani::any();
        match k & 3 {
            0 => FrameType::Full,
            1 => FrameType::First,
            2 => FrameType::Middle,
            _ => FrameType::Last,
        }
    }

    /// writer side: the checksum stored by write_frame is the reference CRC of type ++ payload
    fn crc_writer<const N: usize>() {
        mark_case();
        mark_nontrivial();
        let data: [u8; N] = kani::any();
        let ty = any_type();
        let mut fw = FrameWriter::create(ArrW::new());
        fw.write_frame(ty, &data).unwrap();
        let buf = &fw.get_underlying_wrt().buf;
        let stored = (buf[0] as u32) | ((buf[1] as u32) << 8) | ((buf[2] as u32) << 16) | ((buf[3] as u32) << 24);
        assert!(stored == ref_crc32(ty as u8, &data), "C08: stored checksum is not CRC-32(type ++ payload)");
        assert!(buf[4] as usize == N && buf[5] == 0 && buf[6] == ty as u8, "C07: header fields");
    }

    /// reader side: read_frame accepts a frame iff its stored checksum is the reference CRC of the
    /// type and payload bytes now in the block (all of them symbolic)
    fn crc_reader<const N: usize>() {
        mark_case();
        mark_nontrivial();
        let mut data = [0u8; DEV];
        let payload: [u8; N] = kani::any();
        let stored: u32 = kani::any();
        let ty = any_type();
        data[0] = stored as u8;
        data[1] = (stored >> 8) as u8;
        data[2] = (stored >> 16) as u8;
        data[3] = (stored >> 24) as u8;
        data[4] = N as u8;
        data[5] = 0;
        data[6] = ty as u8;
        let mut i = 0;
        while i < N {
            data[H + i] = payload[i];
            i += 1;
        }
        let authentic = stored == ref_crc32(ty as u8, &payload);
        let mut fr = FrameReader::open(ArrR::new(data, 1));
        let res = fr.read_frame();
        let ok = match &res {
            Ok((t, p)) => {
                assert!(*t as u8 == ty as u8 && same_bytes(p, &payload), "C08: frame content");
                true
            }
            Err(_) => false,
        };
        std::mem::forget(res);
        assert!(ok == authentic, "C08: a frame is accepted iff its checksum is CRC-32(type ++ payload)");
    }

    macro_rules! cshard {
        ($name:ident, $unwind:expr, $f:ident, $n:expr) => {
            #[kani::proof]
            #[kani::unwind($unwind)]
            #[kani::stub(crc32fast::Hasher::internal_new_specialized, no_specialized)]
            pub(crate) fn $name() {
                $f::<{ $n }>()
            }
        };
    }
    cshard!(c08_crc_writer_q_n0, 20, crc_writer, 0);
    cshard!(c08_crc_writer_q_n1, 20, crc_writer, 1);
    cshard!(c08_crc_writer_q_n3, 20, crc_writer, 3);
    cshard!(c08_crc_reader_q_n0, 20, crc_reader, 0);
    cshard!(c08_crc_reader_q_n2, 20, crc_reader, 2);
    #[cfg(verif_thorough)]
    cshard!(c08_crc_writer_t_n5, 20, crc_writer, 5);
    #[cfg(verif_thorough)]
    cshard!(c08_crc_writer_t_n9, 20, crc_writer, 9);
    #[cfg(verif_thorough)]
    cshard!(c08_crc_reader_t_n4, 20, crc_reader, 4);
}
