// WAL-entry layer: MultiPlexedRecord::{serialize,deserialize}, MultiRecord::{new,new_unchecked,
// serialize, Iterator}.  Properties: C08 (entry/batch re-validation), C12 (a batch is validated as a
// whole before any record of it is seen), C10 (no panic on arbitrary bytes).
//
// S-utf8: core::str::from_utf8 is replaced (std's validator forks on pointer alignment and does not
// finish even on concrete input, B3).  The stub accepts the bytes as they are and *assumes* they
// are ASCII: non-ASCII queue names are outside these claims.

use crate::record::{MultiPlexedRecord, MultiRecord};
use crate::Serializable;

pub(crate) fn from_utf8_stub(v: &[u8]) -> Result<&str, core::str::Utf8Error> {
    let mut i = 0;
    while i < v.len() {
        kani::assume(v[i] < 0x80);
        i += 1;
    }
    Ok(unsafe { core::str::from_utf8_unchecked(v) })
}

const HDR: usize = 11; // tag + position + queue length
const ITEM: usize = 12; // position + length of one batch item

fn le64(b: &[u8]) -> u64 {
    let mut v = 0u64;
    let mut i = 0;
    while i < 8 {
        v |= (b[i] as u64) << (8 * i);
        i += 1;
    }
    v
}

/// N bytes: tag, position and payload symbolic, queue-name length QL concrete.
/// If deserialize accepts, every field is exactly what the bytes say; a batch is accepted only if
/// it parses completely, and iterating it yields exactly the items laid out in the buffer.
fn deser_sound<const N: usize, const QL: usize>() {
    mark_case();
    let mut b: [u8; N] = kani::any();
    if N >= HDR {
        b[9] = QL as u8;
        b[10] = 0;
    }
    let r = MultiPlexedRecord::deserialize(&b[..]);
    if N < HDR + QL {
        assert!(r.is_none(), "C08: an entry shorter than its own header/queue name was accepted");
        return;
    }
    let tag = b[0];
    let pos = le64(&b[1..9]);
    match r {
        None => {
            // rejected: either an unknown tag or a batch that does not parse completely
            if tag >= 1 && tag <= 3 {
                panic!("C08: a well-formed control entry was rejected");
            }
            if tag == 4 {
                // completeness: a batch whose items tile the buffer exactly must be accepted
                let body = &b[HDR + QL..];
                let mut off = 0usize;
                let mut well_formed = true;
                let mut k = 0;
                while k <= N / ITEM {
                    if off == body.len() {
                        break;
                    }
                    if body.len() - off < ITEM {
                        well_formed = false;
                        break;
                    }
                    let l = (body[off + 8] as usize) | ((body[off + 9] as usize) << 8) | ((body[off + 10] as usize) << 16) | ((body[off + 11] as usize) << 24);
                    if body.len() - off - ITEM < l {
                        well_formed = false;
                        break;
                    }
                    off += ITEM + l;
                    k += 1;
                }
                assert!(!well_formed, "C05/C12: a well-formed batch (items tile the buffer exactly, e.g. a trailing empty payload) was rejected");
            }
        }
        Some(MultiPlexedRecord::Truncate { queue, truncate_range }) => {
            assert!(tag == 1 && truncate_range.end == pos, "C08: Truncate fields");
            assert!(queue.as_bytes().len() == QL && same(queue.as_bytes(), &b[HDR..HDR + QL]), "C08: queue name");
        }
        Some(MultiPlexedRecord::RecordPosition { queue, position }) => {
            assert!(tag == 2 && position == pos, "C08: RecordPosition fields");
            assert!(queue.as_bytes().len() == QL && same(queue.as_bytes(), &b[HDR..HDR + QL]), "C08: queue name");
        }
        Some(MultiPlexedRecord::DeleteQueue { queue, position }) => {
            assert!(tag == 3 && position == pos, "C08: DeleteQueue fields");
            assert!(queue.as_bytes().len() == QL && same(queue.as_bytes(), &b[HDR..HDR + QL]), "C08: queue name");
        }
        Some(MultiPlexedRecord::AppendRecords { queue, position, records }) => {
            mark_nontrivial();
            assert!(tag == 4 && position == pos, "C08: AppendRecords fields");
            assert!(queue.as_bytes().len() == QL && same(queue.as_bytes(), &b[HDR..HDR + QL]), "C08: queue name");
            // walk the batch with an independent cursor
            let body = &b[HDR + QL..];
            let mut off = 0usize;
            let mut it = records;
            let mut k = 0;
            while k <= N / ITEM {
                match it.next() {
                    None => break,
                    Some(Err(e)) => {
                        std::mem::forget(e);
                        panic!("C12: deserialize handed out a batch that contains an unparsable item");
                    }
                    Some(Ok((p, payload))) => {
                        assert!(off + ITEM <= body.len(), "C08: batch item beyond the buffer");
                        let want_p = le64(&body[off..off + 8]);
                        let want_l = (body[off + 8] as usize) | ((body[off + 9] as usize) << 8) | ((body[off + 10] as usize) << 16) | ((body[off + 11] as usize) << 24);
                        assert!(p == want_p, "C08: batch item position");
                        assert!(payload.len() == want_l, "C08: batch item length");
                        assert!(off + ITEM + want_l <= body.len(), "C08: batch item payload beyond the buffer");
                        assert!(same(payload, &body[off + ITEM..off + ITEM + want_l]), "C08: batch item payload bytes");
                        off += ITEM + want_l;
                    }
                }
                k += 1;
            }
            assert!(it.next().is_none(), "C10: batch iteration does not terminate");
            assert!(off == body.len(), "C12: a batch with a dangling tail was accepted");
        }
    }
}

fn same(a: &[u8], b: &[u8]) -> bool {
    if a.len() != b.len() {
        return false;
    }
    let mut i = 0;
    while i < a.len() {
        if a[i] != b[i] {
            return false;
        }
        i += 1;
    }
    true
}

/// Round trip of a real batch (1..3 payloads of concrete lengths L0,L1,L2 <= 3; 255 = absent) through
/// MultiRecord::serialize and MultiPlexedRecord::serialize/deserialize, then every truncation of
/// the serialized entry: a cut is either rejected or is a whole number of items (never a hole, never
/// a partial item).
fn batch_roundtrip_and_cuts<const L0: usize, const L1: usize, const L2: usize>() {
    mark_case();
    mark_nontrivial();
    let lens = [L0, L1, L2];
    // flat on purpose: Kani 0.68 mis-models `&local_nested_array[i][..n]` (reads through the slice
    // are nondeterministic, DESIGN B22); rows are bytes[3*i .. 3*i+3]
    let bytes: [u8; 9] = kani::any();
    let start: u64 = kani::any();
    kani::assume(start < (1 << 62));
    let mut n = 0;
    while n < 3 && lens[n] != 255 {
        n += 1;
    }
    let mut batch: Vec<u8> = Vec::new();
    MultiRecord::serialize((0..n).map(|i| &bytes[3 * i..3 * i + lens[i]]), start, &mut batch);
    let mut expect_len = 0;
    let mut i = 0;
    while i < n {
        expect_len += ITEM + lens[i];
        i += 1;
    }
    assert!(batch.len() == expect_len, "C15: serialized batch length");
    let records = MultiRecord::new_unchecked(&batch);
    let rec = MultiPlexedRecord::AppendRecords {
        queue: "q",
        position: start,
        records,
    };
    let mut entry: Vec<u8> = Vec::new();
    rec.serialize(&mut entry);
    assert!(entry.len() == HDR + 1 + expect_len);
    // (a) untouched
    match MultiPlexedRecord::deserialize(&entry) {
        Some(MultiPlexedRecord::AppendRecords { queue, position, records }) => {
            assert!(position == start && queue.as_bytes().len() == 1 && queue.as_bytes()[0] == b'q');
            let mut it = records;
            let mut i = 0;
            while i < n {
                match it.next() {
                    Some(Ok((p, payload))) => {
                        assert!(p == start + i as u64, "C05: batch positions are consecutive");
                        assert!(same(payload, &bytes[3 * i..3 * i + lens[i]]), "C07: batch payload bytes");
                    }
                    Some(Err(e)) => {
                        std::mem::forget(e);
                        panic!("item error");
                    }
                    None => panic!("C12: batch lost an item"),
                }
                i += 1;
            }
            assert!(it.next().is_none(), "C12: batch gained an item");
        }
        _ => panic!("C07: a serialized batch does not deserialize"),
    }
    // (b) every truncation of the entry (what a reader would hand over if frames were lost at the end)
    let mut cut = 0;
    while cut < entry.len() {
        let r = MultiPlexedRecord::deserialize(&entry[..cut]);
        // item boundaries inside the batch region
        let mut boundary = cut == HDR + 1;
        let mut acc = HDR + 1;
        let mut k = 0;
        let mut i = 0;
        while i < n {
            acc += ITEM + lens[i];
            if cut == acc {
                boundary = true;
                k = i + 1;
            }
            i += 1;
        }
        match r {
            None => assert!(!boundary, "C12: a batch cut on an item boundary is structurally valid"),
            Some(MultiPlexedRecord::AppendRecords { records, .. }) => {
                assert!(boundary, "C12: a batch cut inside an item was accepted");
                let mut it = records;
                let mut i = 0;
                while i < k {
                    match it.next() {
                        Some(Ok((p, payload))) => {
                            assert!(p == start + i as u64 && same(payload, &bytes[3 * i..3 * i + lens[i]]), "C12: prefix items");
                        }
                        Some(Err(e)) => {
                            std::mem::forget(e);
                            panic!("C12: accepted batch has a bad item");
                        }
                        None => panic!("C12: accepted batch is short"),
                    }
                    i += 1;
                }
                assert!(it.next().is_none());
            }
            Some(_) => panic!("C08: entry type changed"),
        }
        cut += 1;
    }
}

/// C10: arbitrary bytes of length N (everything symbolic, including the name length):
/// deserialize returns, and whatever it returns can be iterated to the end without panic.
fn deser_total<const N: usize>() {
    mark_case();
    let b: [u8; N] = kani::any();
    if let Some(r) = MultiPlexedRecord::deserialize(&b[..]) {
        mark_nontrivial();
        if let MultiPlexedRecord::AppendRecords { records, .. } = r {
            let mut it = records;
            let mut k = 0;
            while k <= N / ITEM + 1 {
                match it.next() {
                    None => break,
                    Some(Ok(_)) => {}
                    Some(Err(e)) => {
                        std::mem::forget(e);
                        break;
                    }
                }
                k += 1;
            }
        }
    }
}

/// C10: MultiRecord over arbitrary bytes, iterated the way every caller does (stop at the first
/// error): bounded number of items, no panic; and `new` accepts exactly when no item is an error.
fn mrec_total<const N: usize>() {
    mark_case();
    let b: [u8; N] = kani::any();
    let mut it = MultiRecord::new_unchecked(&b[..]);
    let mut all_ok = true;
    let mut items = 0;
    let mut k = 0;
    while k <= N / ITEM + 1 {
        match it.next() {
            None => break,
            Some(Ok((_, payload))) => {
                items += 1;
                assert!(payload.len() <= N);
            }
            Some(Err(e)) => {
                std::mem::forget(e);
                all_ok = false;
                break;
            }
        }
        k += 1;
    }
    assert!(items <= N / ITEM, "C10: more items than fit");
    let checked = MultiRecord::new(&b[..]);
    let accepted = checked.is_ok();
    std::mem::forget(checked);
    assert!(accepted == all_ok, "C12: MultiRecord::new must accept exactly the buffers whose items all parse");
}

macro_rules! rshard {
    ($name:ident, $unwind:expr, $f:ident $(, $arg:expr)*) => {
        #[kani::proof]
        #[kani::unwind($unwind)]
        #[kani::stub(core::str::from_utf8, from_utf8_stub)]
        pub(crate) fn $name() {
            $f::<$({ $arg }),*>()
        }
    };
}
macro_rules! rshard_mf {
    ($name:ident, $unwind:expr, $f:ident $(, $arg:expr)*) => {
        #[kani::proof]
        #[kani::unwind($unwind)]
        #[kani::stub(core::str::from_utf8, from_utf8_stub)]
        pub(crate) fn $name() {
            $f::<$({ $arg }),*>();
            must_fail_witness();
        }
    };
}

#[cfg(not(any(quickwit_oss_mrecordlog_verif_block16, quickwit_oss_mrecordlog_verif_block32)))]
mod record_shards {
    use super::*;
    include!(concat!(env!("MRECORDLOG_VERIF_HARNESS_DIR"), "/shards_record.rs"));
}
