// C17: rolling::directory::filename_to_position (through the guarded forwarder, hook H4).

use crate::rolling::verif_filename_to_position;

/// reference: exactly "wal-" + 20 ASCII digits whose value fits u64
fn ref_parse(b: &[u8]) -> Option<u64> {
    if b.len() != 24 {
        return None;
    }
    if b[0] != b'w' || b[1] != b'a' || b[2] != b'l' || b[3] != b'-' {
        return None;
    }
    let mut v: u128 = 0;
    let mut i = 4;
    while i < 24 {
        if b[i] < b'0' || b[i] > b'9' {
            return None;
        }
        v = v * 10 + (b[i] - b'0') as u128;
        i += 1;
    }
    if v > u64::MAX as u128 {
        return None;
    }
    Some(v as u64)
}

/// (a) every 24-byte ASCII name
fn fname_ascii24<const DUMMY: usize>() {
    mark_case();
    mark_nontrivial();
    let b: [u8; 24] = kani::any();
    let mut i = 0;
    while i < 24 {
        kani::assume(b[i] < 0x80);
        i += 1;
    }
    let s = unsafe { std::str::from_utf8_unchecked(&b) };
    let got = verif_filename_to_position(s);
    let want = ref_parse(&b);
    assert!(got == want, "C17: filename_to_position differs from 'wal-' + 20 digits <= u64::MAX");
    kani::cover!(got.is_some(), "accepted name");
    kani::cover!(got == Some(u64::MAX), "largest file number");
    kani::cover!(want.is_none() && b[0] == b'w' && b[1] == b'a' && b[2] == b'l' && b[3] == b'-' && b[23] > b'9', "rejected: non-digit");
}

/// (b) every other length 0..=30: never a WAL file
fn fname_other_len<const LO: usize, const HI: usize>() {
    let b: [u8; 30] = kani::any();
    let mut i = 0;
    while i < 30 {
        kani::assume(b[i] < 0x80);
        i += 1;
    }
    let mut len = LO;
    while len <= HI {
        if len != 24 {
            mark_case();
            let s = unsafe { std::str::from_utf8_unchecked(&b[..len]) };
            assert!(verif_filename_to_position(s).is_none(), "C17: a name that is not 24 bytes long was accepted");
        }
        len += 1;
    }
}

/// (c) 24-byte names containing one 2-byte UTF-8 character (e.g. non-ASCII digits) at position P
fn fname_non_ascii<const P_LO: usize, const P_HI: usize>() {
    let mut p = P_LO;
    while p <= P_HI {
        mark_case();
        mark_nontrivial();
        let mut b: [u8; 24] = kani::any();
        let mut i = 0;
        while i < 24 {
            if i == p {
                kani::assume(b[i] >= 0xC2 && b[i] <= 0xDF);
            } else if i == p + 1 {
                kani::assume(b[i] >= 0x80 && b[i] <= 0xBF);
            } else {
                kani::assume(b[i] < 0x80);
            }
            i += 1;
        }
        let s = unsafe { std::str::from_utf8_unchecked(&b) };
        assert!(verif_filename_to_position(s).is_none(), "C17: a name with a non-ASCII character was accepted");
        p += 1;
    }
}

/// (d) 24-byte names containing one 3-byte UTF-8 character (all of U+0800..U+FFFF minus surrogates:
/// lead E0 with second byte A0..BF, lead ED with second byte 80..9F, the other leads with 80..BF; this
/// includes the full-width digits U+FF10..U+FF19) at position P
fn fname_non_ascii3<const P_LO: usize, const P_HI: usize>() {
    let mut p = P_LO;
    while p <= P_HI {
        mark_case();
        mark_nontrivial();
        let mut b: [u8; 24] = kani::any();
        let mut i = 0;
        while i < 24 {
            if i == p {
                kani::assume(b[i] >= 0xE0 && b[i] <= 0xEF);
            } else if i == p + 1 || i == p + 2 {
                kani::assume(b[i] >= 0x80 && b[i] <= 0xBF);
            } else {
                kani::assume(b[i] < 0x80);
            }
            i += 1;
        }
        kani::assume(b[p] != 0xE0 || b[p + 1] >= 0xA0);
        kani::assume(b[p] != 0xED || b[p + 1] <= 0x9F);
        let s = unsafe { std::str::from_utf8_unchecked(&b) };
        assert!(verif_filename_to_position(s).is_none(), "C17: a name with a non-ASCII character was accepted");
        p += 1;
    }
}

/// (e) 24-byte names containing one 4-byte UTF-8 character (all of U+10000..U+10FFFF: lead F0 with
/// second byte 90..BF, lead F4 with second byte 80..8F, F1..F3 with 80..BF; this includes the
/// mathematical digits U+1D7CE..U+1D7FF) at position P
fn fname_non_ascii4<const P_LO: usize, const P_HI: usize>() {
    let mut p = P_LO;
    while p <= P_HI {
        mark_case();
        mark_nontrivial();
        let b: [u8; 24] = kani::any();
        let mut i = 0;
        while i < 24 {
            if i == p {
                kani::assume(b[i] >= 0xF0 && b[i] <= 0xF4);
            } else if i == p + 1 || i == p + 2 || i == p + 3 {
                kani::assume(b[i] >= 0x80 && b[i] <= 0xBF);
            } else {
                kani::assume(b[i] < 0x80);
            }
            i += 1;
        }
        kani::assume(b[p] != 0xF0 || b[p + 1] >= 0x90);
        kani::assume(b[p] != 0xF4 || b[p + 1] <= 0x8F);
        let s = unsafe { std::str::from_utf8_unchecked(&b) };
        assert!(verif_filename_to_position(s).is_none(), "C17: a name with a non-ASCII character was accepted");
        p += 1;
    }
}

macro_rules! fshard {
    ($name:ident, $unwind:expr, $f:ident $(, $arg:expr)*) => {
        #[kani::proof]
        #[kani::unwind($unwind)]
        pub(crate) fn $name() {
            $f::<$({ $arg }),*>()
        }
    };
}

#[cfg(not(any(quickwit_oss_mrecordlog_verif_block16, quickwit_oss_mrecordlog_verif_block32)))]
mod fname_shards {
    use super::*;
    fshard!(c17_ascii24_q, 32, fname_ascii24, 0);
    fshard!(c17_other_len_q, 33, fname_other_len, 0, 30);
    fshard!(c17_non_ascii_q0, 26, fname_non_ascii, 0, 7);
    fshard!(c17_non_ascii_q1, 26, fname_non_ascii, 8, 15);
    fshard!(c17_non_ascii_q2, 26, fname_non_ascii, 16, 22);
    #[cfg(verif_thorough)]
    fshard!(c17_non_ascii3_t0, 26, fname_non_ascii3, 0, 6);
    #[cfg(verif_thorough)]
    fshard!(c17_non_ascii3_t1, 26, fname_non_ascii3, 7, 13);
    #[cfg(verif_thorough)]
    fshard!(c17_non_ascii3_t2, 26, fname_non_ascii3, 14, 21);
    #[cfg(verif_thorough)]
    fshard!(c17_non_ascii4_t0, 26, fname_non_ascii4, 0, 6);
    #[cfg(verif_thorough)]
    fshard!(c17_non_ascii4_t1, 26, fname_non_ascii4, 7, 13);
    #[cfg(verif_thorough)]
    fshard!(c17_non_ascii4_t2, 26, fname_non_ascii4, 14, 20);
    #[kani::proof]
    #[kani::unwind(32)]
    pub(crate) fn c17_ascii24_q_mf() {
        fname_ascii24::<0>();
        must_fail_witness();
    }
}
