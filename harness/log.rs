// MultiRecordLog itself (create_queue / append_records / truncate / delete_queue / run_gc_if_necessary
// / record_empty_queues_position / resource_usage) over:
//   * the real RecordWriter / FrameWriter / RollingWriter::write (non-rolling path: bytes go into the
//     BufWriter's 32 KiB buffer; the real persist chain flushes it into the stubbed write(2)),
//   * the real Directory::{has_files_that_can_be_deleted, gc} and FileTracker (std BTreeSet),
//   * the real MemQueues over the association-list stand-in for HashMap,
// constructed through guarded hooks (no directory scan, no replay).  Stubs = the I/O leaves only:
// <File as Write>::write, File::sync_data, Directory::sync_directory, std::fs::remove_file (all count
// their calls) and rolling::directory::filepath (format! is not executable).
// What is NOT here: open / replay, roll-over to a new file, flush/fsync ordering, crashes.

use std::io;
use std::os::fd::FromRawFd;
use std::path::{Path, PathBuf};

use crate::frame::FrameWriter;
use crate::mem::MemQueues;
use crate::multi_record_log::MultiRecordLog;
use crate::recordlog::RecordWriter;
use crate::rolling::{Directory, FileNumber, FileTracker, RollingWriter};
use crate::{PersistAction, PersistPolicy};

// I/O leaf functions: the environment.  They deliberately keep no state: measured (B24), a write to
// a `static mut` from a function on these paths makes CBMC report spurious deallocation failures on
// unrelated Vecs of the log (10-line repro with stock cargo kani).
pub(crate) fn file_write_stub(_f: &mut std::fs::File, buf: &[u8]) -> io::Result<usize> {
    Ok(buf.len())
}

pub(crate) fn sync_data_stub(_f: &std::fs::File) -> io::Result<()> {
    Ok(())
}

pub(crate) fn remove_file_stub<P: AsRef<Path>>(_p: P) -> io::Result<()> {
    Ok(())
}

pub(crate) fn filepath_stub(_dir: &Path, _file_number: &FileNumber) -> PathBuf {
    PathBuf::new()
}

/// A log whose directory tracks files 0..nfiles, writer on the last one at `offset`; `queues` as a
/// replay would have left them.
fn new_log(tracker: FileTracker, current: FileNumber, offset: usize, queues: MemQueues, policy: PersistPolicy) -> MultiRecordLog {
    let dir = Directory::verif_new(tracker);
    // never read, written, flushed or closed: all I/O entry points are stubbed and the log is forgotten
    let file = unsafe { std::fs::File::from_raw_fd(3) };
    let w = RollingWriter::verif_new(file, dir, current, offset);
    let rw = RecordWriter::from(FrameWriter::create(w));
    MultiRecordLog::verif_new(rw, queues, policy)
}

fn offset_of(log: &MultiRecordLog) -> usize {
    log.verif_writer().verif_offset()
}

const NQ: usize = 2;
const NAMES: [&str; NQ] = ["a", "bq"];
const MAXREC: usize = 7; // 2 pre-populated records + up to two batches of 2 (scripts of <= 3 calls)
const NFILES: usize = 3;
const FILE_BYTES: usize = (1 << 15) * (1 << 12); // rolling::FILE_NUM_BYTES outside cfg(test)

#[derive(Clone, Copy)]
struct RefQueue {
    exists: bool,
    next: u64,
    n: usize,
    pos: [u64; MAXREC],
    byte: [u8; MAXREC],
    file: [usize; MAXREC],
}

struct Model {
    q: [RefQueue; NQ],
    first_file: usize, // oldest file still present; files first_file..NFILES-1 exist, writer on NFILES-1
}

impl Model {
    fn file_referenced(&self, f: usize) -> bool {
        let mut i = 0;
        while i < NQ {
            let mut k = 0;
            while k < MAXREC {
                if self.q[i].exists && k < self.q[i].n && self.q[i].file[k] == f {
                    return true;
                }
                k += 1;
            }
            i += 1;
        }
        false
    }
    /// C06: after truncate / delete_queue no file older than both the file of the oldest retained
    /// record and the file being written survives.  Returns the number of empty queues if a file
    /// was reclaimed (each of them gets a position record first), else None.
    fn gc(&mut self) -> Option<usize> {
        let mut reclaimed = false;
        while self.first_file + 1 < NFILES && !self.file_referenced(self.first_file) {
            self.first_file += 1;
            reclaimed = true;
        }
        if !reclaimed {
            return None;
        }
        let mut empty = 0;
        let mut i = 0;
        while i < NQ {
            if self.q[i].exists && self.q[i].n == 0 {
                empty += 1;
            }
            i += 1;
        }
        Some(empty)
    }
}

/// bytes of one WAL entry written at `offset`: 7-byte frame header + 11-byte entry header + queue name
/// + batch bytes; all entries here fit in one frame and never come within 7 bytes of a block end.
fn entry_bytes(name: &str, batch: usize) -> usize {
    7 + 11 + name.len() + batch
}

fn observe(log: &MultiRecordLog, m: &Model, meta: usize) {
    let mut bytes = 0;
    let mut listed = 0;
    let mut i = 0;
    while i < NQ {
        let name = NAMES[i];
        assert!(log.queue_exists(name) == m.q[i].exists, "C05/C18: set of existing queues");
        if m.q[i].exists {
            listed += 1;
            bytes += name.len() + m.q[i].n * (1 + meta);
            match log.last_position(name) {
                Ok(p) => assert!(p == m.q[i].next.checked_sub(1), "C04/C05/C18: last position of a queue"),
                Err(e) => {
                    std::mem::forget(e);
                    panic!("C05: existing queue reported missing");
                }
            }
            match log.range(name, ..) {
                Ok(mut it) => {
                    let mut k = 0;
                    while k < MAXREC {
                        if k < m.q[i].n {
                            match it.next() {
                                Some(r) => {
                                    assert!(r.position == m.q[i].pos[k], "C05/C18: record position");
                                    assert!(r.payload.len() == 1 && r.payload[0] == m.q[i].byte[k], "C05/C18: record payload");
                                }
                                None => panic!("C05/C18: a record disappeared"),
                            }
                        }
                        k += 1;
                    }
                    assert!(it.next().is_none(), "C05/C18: a queue gained a record");
                }
                Err(e) => {
                    std::mem::forget(e);
                    panic!("C05: range on an existing queue failed");
                }
            }
        }
        i += 1;
    }
    assert!(log.list_queues().count() == listed, "C05: list_queues");
    let ru = log.resource_usage();
    assert!(ru.memory_used_bytes == bytes, "C16: memory_used_bytes = names + payload + n * constant");
    assert!(ru.memory_used_bytes <= ru.memory_allocated_bytes, "C16: used <= allocated");
    // C06: exactly the contiguous run first_file..=current is tracked, disk usage follows
    let dir = log.verif_writer().verif_directory();
    assert!(dir.files.count() == NFILES - m.first_file, "C06: number of WAL files kept");
    assert!(dir.files.first().file_number() == m.first_file as u64, "C06: oldest WAL file kept");
    assert!(ru.disk_used_bytes == (NFILES - m.first_file) * FILE_BYTES, "C06: disk_used_bytes");
}

/// One script of K operations on a log that a replay left with three files (writer on file 2 at
/// `OFFSET`) and, if INIT == 1, queue "a" = {0 in file 0, 1 in file 1} and queue "bq" = {0 in file 1};
/// INIT == 2: "a" = {1 in file 1}, "bq" = {0 in file 1}, file 0 unreferenced but not yet reclaimed.
/// op code: low 4 bits kind, bit 4 = queue index.
///  0 create   1 delete   2 append(None)   3 append(Some(next+2))   4 append(Some(last)) [no-op]
///  5 append(Some(last-1)) [Past]   6 empty batch [no-op]   7 truncate(first)   8 truncate(next+3)
///  9 batch of two records   10 truncate(first-1) [evicts nothing]
fn log_script<const INIT: usize, const K: usize, const POLICY: usize>(ops: [u8; K]) {
    mark_case();
    const OFFSET: usize = 1000;
    let f = FileNumber::for_verif(9);
    let meta = {
        let mut s = MemQueues::default();
        match s.create_queue("m") {
            Ok(()) => {}
            Err(e) => std::mem::forget(e),
        }
        let base = s.size().0;
        match s.append_record("m", &f, 0, &[]) {
            Ok(()) => {}
            Err(e) => std::mem::forget(e),
        }
        s.size().0 - base
    };
    let tracker = match FileTracker::from_file_numbers(vec![0, 1, 2]) {
        Some(t) => t,
        None => panic!(),
    };
    let f0 = tracker.first().clone();
    let f1 = tracker.next(&f0).unwrap();
    let f2 = tracker.next(&f1).unwrap();
    let mut qs = MemQueues::default();
    let mut m = Model {
        q: [RefQueue {
            exists: false,
            next: 0,
            n: 0,
            pos: [0; MAXREC],
            byte: [0; MAXREC],
            file: [0; MAXREC],
        }; NQ],
        first_file: 0,
    };
    let init_bytes: [u8; 3] = kani::any();
    if INIT == 2 {
        // file 0 holds nothing retained any more but has not been reclaimed yet
        qs.ack_position(NAMES[0], 1);
        qs.ack_position(NAMES[1], 0);
        let r1 = qs.append_record(NAMES[0], &f1, 1, &init_bytes[1..2]).is_ok();
        let r2 = qs.append_record(NAMES[1], &f1, 0, &init_bytes[2..3]).is_ok();
        assert!(r1 && r2);
        m.q[0] = RefQueue {
            exists: true,
            next: 2,
            n: 1,
            pos: [1, 0, 0, 0, 0, 0, 0],
            byte: [init_bytes[1], 0, 0, 0, 0, 0, 0],
            file: [1, 0, 0, 0, 0, 0, 0],
        };
        m.q[1] = RefQueue {
            exists: true,
            next: 1,
            n: 1,
            pos: [0; MAXREC],
            byte: [init_bytes[2], 0, 0, 0, 0, 0, 0],
            file: [1, 0, 0, 0, 0, 0, 0],
        };
    }
    if INIT == 1 {
        qs.ack_position(NAMES[0], 0);
        qs.ack_position(NAMES[1], 0);
        let r0 = qs.append_record(NAMES[0], &f0, 0, &init_bytes[0..1]).is_ok();
        let r1 = qs.append_record(NAMES[0], &f1, 1, &init_bytes[1..2]).is_ok();
        let r2 = qs.append_record(NAMES[1], &f1, 0, &init_bytes[2..3]).is_ok();
        assert!(r0 && r1 && r2);
        m.q[0] = RefQueue {
            exists: true,
            next: 2,
            n: 2,
            pos: [0, 1, 0, 0, 0, 0, 0],
            byte: [init_bytes[0], init_bytes[1], 0, 0, 0, 0, 0],
            file: [0, 1, 0, 0, 0, 0, 0],
        };
        m.q[1] = RefQueue {
            exists: true,
            next: 1,
            n: 1,
            pos: [0; MAXREC],
            byte: [init_bytes[2], 0, 0, 0, 0, 0, 0],
            file: [1, 0, 0, 0, 0, 0, 0],
        };
    }
    drop(f0);
    drop(f1);
    // C14: the persist policy only decides when bytes are handed to the OS / the disk; the same model is
    // the oracle under every policy (OnDelay reads the clock -- a foreign call -- and is not run)
    let policy = match POLICY {
        0 => PersistPolicy::Always(PersistAction::Flush),
        1 => PersistPolicy::DoNothing,
        _ => PersistPolicy::Always(PersistAction::FlushAndFsync),
    };
    let mut log = new_log(tracker, f2, OFFSET, qs, policy);
    observe(&log, &m, meta);
    let mut effective = 0;
    let mut interesting = false; // a rejected / no-op call was issued, or GC reclaimed a file
    let mut j = 0;
    while j < K {
        let op = ops[j];
        let qi = ((op >> 4) & 1) as usize;
        let name = NAMES[qi];
        let kind = op & 15;
        let before = offset_of(&log);
        let ex = m.q[qi].exists;
        // B17: calls that would return Err(MissingQueue(String)) are not issued
        if kind == 0 {
            let r = log.create_queue(name);
            let ok = r.is_ok();
            let bytes = match &r {
                Ok(o) => o.wal_bytes_written as usize,
                Err(_) => 0,
            };
            std::mem::forget(r);
            assert!(ok == !ex, "C05: create_queue succeeds iff the queue did not exist");
            if ex {
                interesting = true;
                assert!(offset_of(&log) == before, "C13: a rejected create_queue wrote to the WAL");
            } else {
                assert!(bytes == offset_of(&log) - before, "C15: create_queue wal_bytes_written");
                assert!(bytes == entry_bytes(name, 0), "C15: size of a position entry");
                m.q[qi].exists = true;
                m.q[qi].next = 0;
                m.q[qi].n = 0;
                effective += 1;
            }
        } else if !ex {
            // not issued
        } else if kind == 1 {
            let r = log.delete_queue(name);
            let ok = r.is_ok();
            let bytes = match &r {
                Ok(o) => o.wal_bytes_written as usize,
                Err(_) => 0,
            };
            std::mem::forget(r);
            assert!(ok, "C05: delete_queue of an existing queue");
            m.q[qi].exists = false;
            m.q[qi].n = 0;
            let gc = m.gc();
            if gc.is_some() {
                interesting = true;
            }
            assert!(bytes == offset_of(&log) - before, "C15: delete_queue wal_bytes_written (incl. GC position entries)");
            let mut expect = entry_bytes(name, 0);
            if let Some(empty) = gc {
                let mut i = 0;
                while i < NQ {
                    if m.q[i].exists && m.q[i].n == 0 {
                        expect += entry_bytes(NAMES[i], 0);
                    }
                    i += 1;
                }
                let _ = empty;
            }
            assert!(bytes == expect, "C15/C04: one position entry per empty queue is written before files are reclaimed");
            effective += 1;
        } else if kind >= 2 && kind <= 6 || kind == 9 {
            let next = m.q[qi].next;
            let b: [u8; 2] = kani::any();
            let (pos_opt, nrec, skip): (Option<u64>, usize, bool) = match kind {
                2 => (None, 1, false),
                3 => (Some(next + 2), 1, false),
                4 => (Some(next.wrapping_sub(1)), 1, next == 0),
                5 => (Some(next.wrapping_sub(2)), 1, next < 2),
                6 => (None, 0, false),
                _ => (None, 2, false),
            };
            if !skip {
                let two: [&[u8]; 2] = [&b[0..1], &b[1..2]];
                let r = if nrec == 0 {
                    log.append_records(name, pos_opt, std::iter::empty::<&[u8]>())
                } else if nrec == 1 {
                    log.append_record(name, pos_opt, &b[0..1])
                } else {
                    // slice iterator on purpose: array::IntoIter keeps its items in MaybeUninit (a union), and a
                    // fat pointer read back from a union loses its constant length for symex (B18)
                    log.append_records(name, pos_opt, two.iter().copied())
                };
                let ok = r.is_ok();
                let (lastp, bytes) = match &r {
                    Ok(o) => (o.last_position, o.wal_bytes_written as usize),
                    Err(_) => (None, 0),
                };
                let past = matches!(&r, Err(crate::error::AppendError::Past));
                std::mem::forget(r);
                let after = offset_of(&log);
                if kind == 5 {
                    interesting = true;
                    assert!(!ok && past, "C05: an explicit position older than the last one is a Past error");
                    assert!(after == before, "C13: a rejected append wrote to the WAL");
                } else if kind == 4 || kind == 6 {
                    interesting = true;
                    assert!(ok && lastp.is_none() && bytes == 0, "C05/C13: a retried last position / an empty batch is an acknowledged no-op reporting 0 bytes");
                    assert!(after == before, "C13: a no-op append wrote to the WAL");
                } else {
                    let start = match pos_opt {
                        Some(p) => p,
                        None => next,
                    };
                    assert!(ok, "C05: append failed");
                    assert!(lastp == Some(start + nrec as u64 - 1), "C04/C05: positions are assigned consecutively from the next (or the explicit future) position");
                    assert!(bytes == after - before, "C15: append wal_bytes_written");
                    assert!(bytes == entry_bytes(name, nrec * 13), "C12/C15: the whole batch is ONE WAL entry");
                    let mut k = 0;
                    while k < nrec {
                        assert!(m.q[qi].n < MAXREC); // harness sizing
                        let n = m.q[qi].n;
                        m.q[qi].pos[n] = start + k as u64;
                        m.q[qi].byte[n] = b[k];
                        m.q[qi].file[n] = NFILES - 1;
                        m.q[qi].n += 1;
                        k += 1;
                    }
                    m.q[qi].next = start + nrec as u64;
                    effective += 1;
                }
            }
        } else {
            let t = if kind == 7 && m.q[qi].n > 0 {
                m.q[qi].pos[0]
            } else if kind == 10 && m.q[qi].n > 0 && m.q[qi].pos[0] > 0 {
                m.q[qi].pos[0] - 1 // evicts nothing
            } else {
                m.q[qi].next + 3
            };
            let r = log.truncate(name, ..=t);
            let ok = r.is_ok();
            let (evicted, bytes) = match &r {
                Ok(o) => (o.evicted_records, o.wal_bytes_written as usize),
                Err(_) => (0, 0),
            };
            std::mem::forget(r);
            assert!(ok, "C05: truncate of an existing queue");
            let mut k = 0;
            let mut i = 0;
            while i < MAXREC {
                if i < m.q[qi].n && m.q[qi].pos[i] <= t {
                    k += 1;
                }
                i += 1;
            }
            assert!(evicted == k, "C05: truncate reports how many records it removed");
            let mut i = 0;
            while i < MAXREC {
                if i + k < MAXREC {
                    m.q[qi].pos[i] = m.q[qi].pos[i + k];
                    m.q[qi].byte[i] = m.q[qi].byte[i + k];
                    m.q[qi].file[i] = m.q[qi].file[i + k];
                }
                i += 1;
            }
            m.q[qi].n -= k;
            if t + 1 > m.q[qi].next {
                m.q[qi].next = t + 1;
            }
            let gc = m.gc();
            if gc.is_some() {
                interesting = true;
            }
            assert!(bytes == offset_of(&log) - before, "C15: truncate wal_bytes_written (incl. GC position entries)");
            let mut expect = entry_bytes(name, 0);
            if gc.is_some() {
                let mut i = 0;
                while i < NQ {
                    if m.q[i].exists && m.q[i].n == 0 {
                        expect += entry_bytes(NAMES[i], 0);
                    }
                    i += 1;
                }
            }
            assert!(bytes == expect, "C15/C04: one position entry per empty queue is written before files are reclaimed");
            effective += 1;
        }
        observe(&log, &m, meta);
        j += 1;
    }
    if effective >= 2 || interesting {
        mark_nontrivial();
    }
    std::mem::forget(log);
}

fn log_scripts<const INIT: usize, const ALPHA: usize, const K: usize, const S_LO: usize, const S_HI: usize>() {
    log_scripts_pol::<INIT, ALPHA, K, 0, S_LO, S_HI>()
}

fn log_scripts_pol<const INIT: usize, const ALPHA: usize, const K: usize, const POLICY: usize, const S_LO: usize, const S_HI: usize>() {
    let alphabet: &[u8] = match ALPHA {
        // position_opt handling, no-ops and rejections, batches (one queue) + an op on the other queue
        0 => &[0, 2, 3, 4, 5, 6, 9, 7, 8, 16 + 0, 16 + 2],
        // reclamation: truncations and deletions on the pre-populated log
        1 => &[7, 8, 1, 2, 16 + 7, 16 + 8, 16 + 1, 16 + 2],
        // calls that evict nothing on a log with a reclaimable file
        2 => &[10, 16 + 10, 4, 6],
        _ => &[0],
    };
    let n = alphabet.len();
    let mut s = S_LO;
    while s <= S_HI {
        let mut ops = [0u8; K];
        let mut d = s;
        let mut j = 0;
        while j < K {
            ops[K - 1 - j] = alphabet[d % n]; // most significant digit = first operation
            d /= n;
            j += 1;
        }
        log_script::<INIT, K, POLICY>(ops);
        s += 1;
    }
}

// ---- roll-over probe -------------------------------------------------------------------------
pub(crate) fn create_file_stub(_dir: &Path, _file_number: &FileNumber) -> io::Result<std::fs::File> {
    Ok(unsafe { std::fs::File::from_raw_fd(4) })
}

pub(crate) fn ownedfd_drop_stub(_fd: &mut std::os::fd::OwnedFd) {}

/// Garbage collection whose position entries roll over to a new WAL file (C04 / C02 / C06): two
/// empty queues, files 0,1,2 with nothing retained in 0 and 1, the writer on file 2 so close to its
/// end that the Truncate entry and the first position entry still fit and the second position entry
/// starts file 3.  The file that received the first position entry (2) must survive the pass: it is
/// neither older than the oldest retained data nor older than the file that was being written when
/// the call began; losing it would lose queue "a"'s position on the next restart.
/// VARIANT 0: truncate("a"); 1: delete_queue of a third queue.
fn log_gc_rollover<const VARIANT: usize>() {
    mark_case();
    mark_nontrivial();
    let tracker = match FileTracker::from_file_numbers(vec![0, 1, 2]) {
        Some(t) => t,
        None => panic!(),
    };
    let f0 = tracker.first().clone();
    let f1 = tracker.next(&f0).unwrap();
    let f2 = tracker.next(&f1).unwrap();
    drop(f0);
    drop(f1);
    let mut qs = MemQueues::default();
    qs.ack_position("a", 5);
    qs.ack_position("bq", 7);
    if VARIANT == 1 {
        qs.ack_position("c", 1);
    }
    // entry sizes: 7 (frame) + 11 (entry header) + name
    let first_entry = if VARIANT == 0 { 19 } else { 19 };
    let start = FILE_BYTES - first_entry - 19;
    let mut log = new_log(tracker, f2, start, qs, PersistPolicy::Always(PersistAction::Flush));
    let bytes = if VARIANT == 0 {
        let r = log.truncate("a", ..=0);
        let ok = r.is_ok();
        let v = match &r {
            Ok(o) => {
                assert!(o.evicted_records == 0);
                o.wal_bytes_written as usize
            }
            Err(_) => 0,
        };
        std::mem::forget(r);
        assert!(ok, "truncate failed");
        v
    } else {
        let r = log.delete_queue("c");
        let ok = r.is_ok();
        let v = match &r {
            Ok(o) => o.wal_bytes_written as usize,
            Err(_) => 0,
        };
        std::mem::forget(r);
        assert!(ok, "delete_queue failed");
        v
    };
    assert!(bytes == first_entry + 19 + 20, "C15: the call reports its own entry plus one position entry per empty queue");
    let w = log.verif_writer();
    assert!(w.current_file().file_number() == 3, "the second position entry started a new file");
    assert!(w.verif_offset() == 20, "cursor in the new file");
    let dir = w.verif_directory();
    assert!(dir.files.first().file_number() == 2, "C04/C06: the file that received a position entry during this very GC pass was reclaimed");
    assert!(dir.files.count() == 2, "C06: files 0 and 1 are reclaimed, files 2 and 3 kept");
    match log.last_position("a") {
        Ok(p) => assert!(p == Some(4), "C04: position of the idle queue"),
        Err(e) => {
            std::mem::forget(e);
            panic!("queue a vanished");
        }
    }
    match log.last_position("bq") {
        Ok(p) => assert!(p == Some(6), "C04: position of the idle queue"),
        Err(e) => {
            std::mem::forget(e);
            panic!("queue bq vanished");
        }
    }
    std::mem::forget(log);
}

// ---------------------------------------------------------------------------------------------
// the reader hands its exact cursor to the writer (FrameReader<RollingReader>::into_writer)
// ---------------------------------------------------------------------------------------------
pub(crate) fn file_seek_stub(_f: &mut std::fs::File, _pos: std::io::SeekFrom) -> io::Result<u64> {
    Ok(0)
}

pub(crate) fn file_read_stub(_f: &mut std::fs::File, _buf: &mut [u8]) -> io::Result<usize> {
    Ok(0) // end of file: there is no further block
}

/// A log whose last block (block 2 of the only file) holds ONE entry that leaves exactly TAIL zero
/// bytes before the block end.  The real frame reader reads it and reaches the end of the log; the
/// writer it turns into must resume exactly where the reader will look for the next frame header:
/// right behind the entry whenever a header still fits (TAIL >= 7), else there or at the next block.
fn resume_cursor<const TAIL: usize>() {
    mark_case();
    if TAIL <= 8 {
        mark_nontrivial();
    }
    let len = B - H - TAIL;
    let mut block: Box<[u8; B]> = Box::new([0u8; B]);
    let k = crc_const(&[], 1);
    block[0] = k as u8;
    block[1] = (k >> 8) as u8;
    block[2] = (k >> 16) as u8;
    block[3] = (k >> 24) as u8;
    block[4] = (len & 0xff) as u8;
    block[5] = (len >> 8) as u8;
    block[6] = 1; // Full
    let tracker = match FileTracker::from_file_numbers(vec![0]) {
        Some(t) => t,
        None => panic!(),
    };
    let f0 = tracker.first().clone();
    let dir = Directory::verif_new(tracker);
    let file = unsafe { std::fs::File::from_raw_fd(3) };
    let reader = crate::rolling::RollingReader::verif_new(file, dir, f0, 2, block);
    let mut fr = crate::frame::FrameReader::open(reader);
    let r1 = fr.read_frame();
    let ok1 = match &r1 {
        Ok((_, p)) => p.len() == len,
        Err(_) => false,
    };
    std::mem::forget(r1);
    assert!(ok1, "the entry in the last block is read back");
    let r2 = fr.read_frame();
    let end = r2.is_err();
    std::mem::forget(r2);
    assert!(end, "nothing follows the entry");
    let fw = match fr.into_writer() {
        Ok(w) => w,
        Err(e) => {
            std::mem::forget(e);
            panic!("into_writer failed");
        }
    };
    let off = fw.get_underlying_wrt().verif_offset();
    let behind_entry = 2 * B + H + len;
    if TAIL >= H {
        assert!(off == behind_entry, "C01/C02/C07: the writer does not resume where the reader expects the next frame header (entries appended after a reopen would be lost)");
    } else {
        assert!(off == behind_entry || off == 3 * B, "C07: resume position in a tail too short for a header");
    }
    std::mem::forget(fw);
}

macro_rules! lshard {
    ($name:ident, $unwind:expr, $f:ident $(, $arg:expr)*) => {
        #[kani::proof]
        #[kani::unwind($unwind)]
        #[kani::stub(<std::fs::File as std::io::Write>::write, file_write_stub)]
        #[kani::stub(std::fs::File::sync_data, sync_data_stub)]
        #[kani::stub(std::fs::remove_file, remove_file_stub)]
        #[kani::stub(crate::rolling::directory::filepath, filepath_stub)]
        #[kani::stub(crate::frame::header::crc32, crc_const)]
        pub(crate) fn $name() {
            $f::<$({ $arg }),*>()
        }
    };
}

#[cfg(not(any(quickwit_oss_mrecordlog_verif_block16, quickwit_oss_mrecordlog_verif_block32)))]
mod log_shards {
    use super::*;
    macro_rules! rollshard {
        ($name:ident, $v:expr) => {
            #[kani::proof]
            #[kani::unwind(9)]
            #[kani::stub(<std::fs::File as std::io::Write>::write, file_write_stub)]
            #[kani::stub(std::fs::File::sync_data, sync_data_stub)]
            #[kani::stub(std::fs::remove_file, remove_file_stub)]
            #[kani::stub(crate::rolling::directory::filepath, filepath_stub)]
            #[kani::stub(crate::rolling::directory::create_file, create_file_stub)]
            #[kani::stub(<std::os::fd::OwnedFd as core::ops::Drop>::drop, ownedfd_drop_stub)]
            #[kani::stub(crate::frame::header::crc32, crc_const)]
            pub(crate) fn $name() {
                log_gc_rollover::<{ $v }>()
            }
        };
    }
    macro_rules! resumeshard {
        ($name:ident, $v:expr) => {
            #[kani::proof]
            #[kani::unwind(9)]
            #[kani::stub(<std::fs::File as std::io::Write>::write, file_write_stub)]
            #[kani::stub(<std::fs::File as std::io::Seek>::seek, file_seek_stub)]
            #[kani::stub(<std::fs::File as std::io::Read>::read, file_read_stub)]
            #[kani::stub(crate::frame::header::crc32, crc_const)]
            pub(crate) fn $name() {
                resume_cursor::<{ $v }>()
            }
        };
    }
    resumeshard!(c07_resume_q_tail7, 7);
    resumeshard!(c07_resume_q_tail6, 6);
    resumeshard!(c07_resume_q_tail8, 8);
    resumeshard!(c07_resume_q_tail0, 0);
    resumeshard!(c07_resume_q_tail100, 100);
    rollshard!(c06_gcroll_q_trunc, 0);
    rollshard!(c06_gcroll_q_delete, 1);
    include!(concat!(env!("MRECORDLOG_VERIF_HARNESS_DIR"), "/shards_log.rs"));
}
