
use std::io;

use crate::error::ReadRecordError;
use crate::frame::{FrameReader, FrameType, FrameWriter, ReadFrameError, HEADER_LEN};
use crate::recordlog::{RecordReader, RecordWriter};
use crate::{BlockRead, BlockWrite, PersistAction, Serializable, BLOCK_NUM_BYTES};

pub(crate) const B: usize = BLOCK_NUM_BYTES;
pub(crate) const H: usize = HEADER_LEN;
/// Capacity of the in-memory block devices (blocks).
pub(crate) const NB_MAX: usize = 12;
pub(crate) const DEV: usize = NB_MAX * B;

// ---------------------------------------------------------------------------------------------
// S-crc: cheap deterministic checksum standing in for crc32fast in *both* writer and reader.
// ---------------------------------------------------------------------------------------------
/// Checksum *oracle*.  Two measured facts force this shape (DESIGN.md §3, B14/B15): (i) CBMC's
/// simplifier does not see through u32 <-> [u8;4] transmutes, so any checksum that depends on
/// symbolic payload bytes makes all four stored bytes symbolic and with them the reader's
/// "is this the all-zero end marker?" test; (ii) a symbolic outcome of `Header::check` makes the
/// discriminant of the reader's `Result` symbolic, after which the cursor, every slice length and
/// the io::Error drop glue are explored for all alternatives (B13).
///
/// The oracle therefore returns a constant K(type, len) whose low byte is the (non-zero) frame
/// type, and models the *ideal checksum* assumption structurally: the harness names the reader-side
/// `crc32` call (by index) whose frame bytes it has altered, and for exactly that call the oracle
/// returns a value different from the stored one.  Which frame is damaged is concrete; what the
/// damaged bytes are stays symbolic.
pub(crate) static mut CRC_READER_SIDE: bool = false;
pub(crate) static mut CRC_READER_CALLS: usize = 0;
pub(crate) static mut CRC_FAIL_MASK: u64 = 0;

pub(crate) fn crc_k(len: usize, frame_type: u8) -> u32 {
    0x5A5A_0000u32 ^ ((len as u32 & 0xff) << 8) ^ ((len as u32 >> 8) << 16) | (frame_type as u32)
}

pub(crate) fn crc_stub(data: &[u8], frame_type: u8) -> u32 {
    let k = crc_k(data.len(), frame_type);
    unsafe {
        if CRC_READER_SIDE {
            let i = CRC_READER_CALLS;
            CRC_READER_CALLS += 1;
            if i < 64 && (CRC_FAIL_MASK >> i) & 1 == 1 {
                return !k;
            }
        }
    }
    k
}

pub(crate) fn crc_reader_side(fail_mask: u64) {
    unsafe {
        CRC_READER_SIDE = true;
        CRC_READER_CALLS = 0;
        CRC_FAIL_MASK = fail_mask;
    }
}

pub(crate) fn crc_writer_side() {
    unsafe {
        CRC_READER_SIDE = false;
        CRC_FAIL_MASK = 0;
    }
}

pub(crate) fn crc_reader_calls() -> usize {
    unsafe { CRC_READER_CALLS }
}

/// Constant checksum: used only by the arithmetic harnesses at the real 32 KiB geometry, where
/// no byte is ever read back.
pub(crate) fn crc_const(_data: &[u8], frame_type: u8) -> u32 {
    0x0101_0101 | (frame_type as u32)
}

// ---------------------------------------------------------------------------------------------
// In-memory block devices
// ---------------------------------------------------------------------------------------------

/// Array-backed `BlockWrite`.  Zero-prefilled like a freshly created WAL file.
pub(crate) struct ArrW {
    pub buf: [u8; DEV],
    pub cursor: usize,
    pub num_writes: usize,
}

impl ArrW {
    pub fn new() -> Self {
        ArrW {
            buf: [0u8; DEV],
            cursor: 0,
            num_writes: 0,
        }
    }
    pub fn at(cursor: usize) -> Self {
        ArrW {
            buf: [0u8; DEV],
            cursor,
            num_writes: 0,
        }
    }
}

impl BlockWrite for ArrW {
    fn write(&mut self, buf: &[u8]) -> io::Result<()> {
        // trait contract: "Must panic if buf is larger than num_bytes_remaining_in_block"
        assert!(buf.len() <= self.num_bytes_remaining_in_block());
        assert!(self.cursor + buf.len() <= DEV); // harness sizing, not a property
        let mut i = 0;
        while i < buf.len() {
            self.buf[self.cursor + i] = buf[i];
            i += 1;
        }
        self.cursor += buf.len();
        self.num_writes += 1;
        Ok(())
    }
    fn persist(&mut self, _persist_action: PersistAction) -> io::Result<()> {
        Ok(())
    }
    fn num_bytes_remaining_in_block(&self) -> usize {
        B - (self.cursor % B)
    }
}

/// Cursor-only `BlockWrite` (real geometry arithmetic).
pub(crate) struct CurW {
    pub cursor: usize,
    pub num_writes: usize,
    pub min_remaining_at_frame: usize,
}

impl BlockWrite for CurW {
    fn write(&mut self, buf: &[u8]) -> io::Result<()> {
        assert!(buf.len() <= self.num_bytes_remaining_in_block());
        self.cursor += buf.len();
        self.num_writes += 1;
        Ok(())
    }
    fn persist(&mut self, _persist_action: PersistAction) -> io::Result<()> {
        Ok(())
    }
    fn num_bytes_remaining_in_block(&self) -> usize {
        B - (self.cursor % B)
    }
}

/// Array-backed `BlockRead` over `nb` blocks; positioned on block 0 at creation (like
/// `RollingReader::open`, which reads the first block eagerly).
pub(crate) struct ArrR {
    pub data: [u8; DEV],
    pub nb: usize,
    pub block_id: usize,
    pub block: [u8; B],
    pub next_block_calls: usize,
}

impl ArrR {
    pub fn new(data: [u8; DEV], nb: usize) -> Self {
        let mut block = [0u8; B];
        let mut i = 0;
        while i < B {
            block[i] = data[i];
            i += 1;
        }
        ArrR {
            data,
            nb,
            block_id: 0,
            block,
            next_block_calls: 0,
        }
    }
}

impl BlockRead for ArrR {
    fn next_block(&mut self) -> io::Result<bool> {
        self.next_block_calls += 1;
        if self.block_id + 1 >= self.nb {
            return Ok(false);
        }
        self.block_id += 1;
        let base = self.block_id * B;
        let mut i = 0;
        while i < B {
            self.block[i] = self.data[base + i];
            i += 1;
        }
        Ok(true)
    }
    fn block(&self) -> &[u8; B] {
        &self.block
    }
}

// ---------------------------------------------------------------------------------------------
// Entry payloads as raw bytes (the WAL stream layer is generic over `Serializable`).
// ---------------------------------------------------------------------------------------------
#[derive(Clone, Copy)]
pub(crate) struct Raw<'a>(pub &'a [u8]);

impl<'a> Serializable<'a> for Raw<'a> {
    fn serialize(&self, buffer: &mut Vec<u8>) {
        buffer.clear();
        buffer.extend_from_slice(self.0);
    }
    fn deserialize(buffer: &'a [u8]) -> Option<Self> {
        Some(Raw(buffer))
    }
}

/// An entry of `n` zero bytes, produced without a loop (real-geometry arithmetic harnesses).
pub(crate) struct Zeros(pub usize);

impl<'a> Serializable<'a> for Zeros {
    fn serialize(&self, buffer: &mut Vec<u8>) {
        *buffer = vec![0u8; self.0];
    }
    fn deserialize(buffer: &'a [u8]) -> Option<Self> {
        Some(Zeros(buffer.len()))
    }
}

pub(crate) fn new_writer(w: ArrW) -> RecordWriter<ArrW> {
    RecordWriter::from(FrameWriter::create(w))
}

/// Number of bytes an entry of `len` bytes occupies when written at cursor `cur`
/// (closed-form reference: padding + per-frame headers + payload).
pub(crate) fn ref_entry_footprint(mut cur: usize, len: usize) -> (usize, usize) {
    let start = cur;
    let mut left = len;
    let mut frames = 0usize;
    loop {
        let rem = B - (cur % B);
        if rem < H {
            cur += rem;
            continue;
        }
        let take = if left < rem - H { left } else { rem - H };
        cur += H + take;
        left -= take;
        frames += 1;
        if left == 0 {
            break;
        }
    }
    (cur - start, frames)
}

// ---------------------------------------------------------------------------------------------
// Coverage marks.  Each call unwinds a one-iteration loop, which CBMC logs during symbolic
// execution ("Unwinding loop ...mark_case..."); since every case parameter is concrete at symex
// time a mark is logged exactly when the case is executed.  The runner counts these lines: the
// numbers in the evidence are measured, not declared.
// ---------------------------------------------------------------------------------------------
#[inline(never)]
pub(crate) fn mark_case() {
    let mut i = 0u8;
    while i < 1 {
        i += 1;
    }
}

#[inline(never)]
pub(crate) fn mark_nontrivial() {
    let mut i = 0u8;
    while i < 1 {
        i += 1;
    }
}

/// Must-fail twin marker: a harness whose name ends in `_mf` ends with this call, and the runner
/// requires exactly this assertion to fail (reachability of the end of the harness).
pub(crate) fn must_fail_witness() {
    assert!(false, "MUST-FAIL-WITNESS");
}
