// rolling::file_number::FileTracker (real std BTreeSet + Arc): the set of WAL files, ordered by
// number with gaps allowed; only an unreferenced *oldest* file is ever handed out for deletion and
// the last file never is.  Serves C06 (reclamation bookkeeping) and C17 (ordering with gaps).

use crate::rolling::{FileNumber, FileTracker};

/// NUMS = the file numbers found in the directory (concrete, any order, gaps allowed)
fn tracker_order<const A: u64, const B_: u64, const C: u64>() {
    mark_case();
    mark_nontrivial();
    let tracker = FileTracker::from_file_numbers(vec![B_, C, A]);
    let tracker = match tracker {
        Some(t) => t,
        None => panic!("non-empty list rejected"),
    };
    // A < B_ < C by construction of the shards
    assert!(tracker.count() == 3, "C17: every WAL-named file is tracked");
    let f0 = tracker.first().clone();
    assert!(f0.file_number() == A, "C17: files are ordered by number");
    let f1 = match tracker.next(&f0) {
        Some(f) => f,
        None => panic!("C17: the file after the first one is not found (gaps must be allowed)"),
    };
    assert!(f1.file_number() == B_, "C17: next() is the next larger tracked number");
    let f2 = match tracker.next(&f1) {
        Some(f) => f,
        None => panic!("C17: the file after a gap is not found"),
    };
    assert!(f2.file_number() == C, "C17: next() skips gaps");
    assert!(tracker.next(&f2).is_none(), "C17: nothing after the last file");
    std::mem::forget(tracker);
}

/// take_first_unused / inc: SCRIPT bit i = "a queue still references file i" (i = 0..2)
fn tracker_gc<const HELD: u8>() {
    mark_case();
    if HELD != 0 {
        mark_nontrivial();
    }
    let mut tracker = match FileTracker::from_file_numbers(vec![0, 1, 2]) {
        Some(t) => t,
        None => panic!(),
    };
    // the writer is on the last file; queues hold clones of the files they reference
    let f0 = tracker.first().clone();
    let f1 = tracker.next(&f0).unwrap();
    let f2 = tracker.next(&f1).unwrap();
    let h0 = if HELD & 1 != 0 { Some(f0.clone()) } else { None };
    let h1 = if HELD & 2 != 0 { Some(f1.clone()) } else { None };
    let h2 = if HELD & 4 != 0 { Some(f2.clone()) } else { None };
    // inc on the last file creates exactly the next number; inc on an inner file returns the existing one
    let again = tracker.inc(&f1);
    assert!(again.file_number() == 2 && tracker.count() == 3, "C06: inc must not create a file that exists");
    drop(again);
    drop(f0);
    drop(f1);
    drop(f2);
    // GC pass: pops files from the front while they are unreferenced; never the last one
    let mut removed = 0u64;
    let mut i = 0;
    while i < 4 {
        match tracker.take_first_unused() {
            Some(f) => {
                assert!(f.file_number() == removed, "C06: files are deleted oldest first");
                assert!(f.can_be_deleted(), "C06: a file was handed out for deletion while still referenced");
                removed += 1;
            }
            None => break,
        }
        i += 1;
    }
    let expect = if HELD & 1 != 0 { 0 } else if HELD & 2 != 0 { 1 } else { 2 };
    assert!(removed == expect, "C06: exactly the unreferenced prefix is reclaimed, and never the last file");
    assert!(tracker.count() as u64 == 3 - removed);
    assert!(tracker.first().file_number() == removed);
    // rolling over from the last file creates number 3
    let last = {
        let mut f = tracker.first().clone();
        let mut k = 0;
        while k < 3 {
            match tracker.next(&f) {
                Some(n) => f = n,
                None => break,
            }
            k += 1;
        }
        f
    };
    assert!(last.file_number() == 2);
    let newf = tracker.inc(&last);
    assert!(newf.file_number() == 3 && tracker.count() as u64 == 4 - removed, "C17: the next file number is last + 1");
    std::mem::forget((h0, h1, h2, tracker, last, newf));
}

macro_rules! tshard {
    ($name:ident, $unwind:expr, $f:ident $(, $arg:expr)*) => {
        #[kani::proof]
        #[kani::unwind($unwind)]
        pub(crate) fn $name() {
            $f::<$({ $arg }),*>()
        }
    };
}

#[cfg(not(any(quickwit_oss_mrecordlog_verif_block16, quickwit_oss_mrecordlog_verif_block32)))]
mod tracker_shards {
    use super::*;
    tshard!(c17_tracker_q_gap, 12, tracker_order, 0, 1, 3);
    tshard!(c17_tracker_q_hi, 12, tracker_order, 7, 4294967296, 18446744073709551615);
    tshard!(c06_tracker_q_h0, 12, tracker_gc, 0);
    tshard!(c06_tracker_q_h1, 12, tracker_gc, 1);
    tshard!(c06_tracker_q_h2, 12, tracker_gc, 2);
    tshard!(c06_tracker_q_h4, 12, tracker_gc, 4);
    tshard!(c06_tracker_q_h6, 12, tracker_gc, 6);
    #[kani::proof]
    #[kani::unwind(12)]
    pub(crate) fn c06_tracker_q_h2_mf() {
        tracker_gc::<2>();
        must_fail_witness();
    }
}
