// mem::queues::MemQueues -- the name -> queue map of the log -- against a reference model.
// The std HashMap inside MemQueues is replaced (guarded hook in src/mem/queues.rs) by std's BTreeMap:
// hashbrown's SIMD group probing cannot be executed symbolically (DESIGN B21); the ordered map has
// the same observable behaviour for every method MemQueues uses.  Everything else is real code.
//
// Serves C18 (queues are isolated from one another), C05 (create / delete / exists / list),
// C04 + C09 (ack_position: a position record re-creates or realigns a queue), C16 (names are
// accounted in bytes).

use crate::mem::MemQueues;
use crate::rolling::FileNumber;

const NQ: usize = 2;
const NAMES: [&str; NQ] = ["a", "\u{e9}1"]; // the second name holds a 2-byte UTF-8 character
const MAXREC: usize = 4;

#[derive(Clone, Copy)]
struct RefQueue {
    exists: bool,
    next: u64,
    n: usize,
    pos: [u64; MAXREC],
    byte: [u8; MAXREC],
}

fn observe(qs: &MemQueues, m: &[RefQueue; NQ], meta: usize) {
    let mut listed = 0;
    let mut bytes = 0;
    let mut i = 0;
    while i < NQ {
        let name = NAMES[i];
        assert!(qs.contains_queue(name) == m[i].exists, "C05/C18: set of existing queues");
        // B17: Result<_, MissingQueue(String)> is niche-encoded in a pointer; an Err value makes symex
        // explore the Ok arm with a garbage reference (> 28 GB).  Accessors and operations are
        // therefore only invoked on queues that exist according to the (concrete) model.
        if m[i].exists {
            match qs.next_position(name) {
                Ok(p) => assert!(p == m[i].next, "C04/C18: next position of a queue"),
                Err(e) => {
                    std::mem::forget(e);
                    panic!("C05: an existing queue is reported missing");
                }
            }
            listed += 1;
            bytes += name.len() + m[i].n * (1 + meta);
            match qs.range(name, ..) {
                Ok(mut it) => {
                    let mut k = 0;
                    while k < MAXREC {
                        if k < m[i].n {
                            match it.next() {
                                Some(r) => {
                                    assert!(r.position == m[i].pos[k], "C18: record position of a queue");
                                    assert!(r.payload.len() == 1 && r.payload[0] == m[i].byte[k], "C18: record payload of a queue");
                                }
                                None => panic!("C18: a record of a queue disappeared"),
                            }
                        }
                        k += 1;
                    }
                    assert!(it.next().is_none(), "C18: a queue gained a record");
                }
                Err(e) => {
                    std::mem::forget(e);
                    panic!("C05: range on an existing queue failed");
                }
            }
        }
        i += 1;
    }
    assert!(qs.list_queues().count() == listed, "C05: list_queues");
    let (used, allocated) = qs.size();
    assert!(used == bytes, "C16: memory used = queue-name bytes + payload bytes + n * meta");
    assert!(used <= allocated, "C16: used <= allocated");
}

/// op code: low 3 bits kind (0 create, 1 delete, 2 append at next, 3 append at next+2, 4 truncate at
/// first, 5 truncate at next+3, 6 ack_position(next+5), 7 ack_position(0)); bit 3 = queue index
fn queues_script<const K: usize>(ops: [u8; K]) {
    mark_case();
    let f = FileNumber::for_verif(0);
    // per-record accounting constant, measured on a scratch instance
    let meta = {
        let mut s = MemQueues::default();
        match s.create_queue("m") {
            Ok(()) => {}
            Err(e) => {
                std::mem::forget(e);
            }
        }
        let base = s.size().0;
        match s.append_record("m", &f, 0, &[]) {
            Ok(()) => {}
            Err(e) => {
                std::mem::forget(e);
            }
        }
        s.size().0 - base
    };
    let mut qs = MemQueues::default();
    let mut m = [RefQueue {
        exists: false,
        next: 0,
        n: 0,
        pos: [0; MAXREC],
        byte: [0; MAXREC],
    }; NQ];
    let mut j = 0;
    let mut mutations = 0;
    while j < K {
        let op = ops[j];
        let qi = ((op >> 3) & 1) as usize;
        let name = NAMES[qi];
        match op & 7 {
            0 => {
                let r = qs.create_queue(name);
                assert!(r.is_ok() == !m[qi].exists, "C05: create_queue succeeds iff the queue did not exist");
                if !m[qi].exists {
                    m[qi].exists = true;
                    m[qi].next = 0;
                    m[qi].n = 0;
                    mutations += 1;
                }
            }
            _ if !m[qi].exists && (op & 7) >= 1 && (op & 7) <= 5 => {
                // operation on a missing queue: not executed (see observe)
            }
            1 => {
                let r = qs.delete_queue(name);
                let ok = r.is_ok();
                std::mem::forget(r);
                assert!(ok == m[qi].exists, "C05: delete_queue succeeds iff the queue existed");
                m[qi].exists = false;
                m[qi].n = 0;
            }
            2 | 3 => {
                let p = m[qi].next + if op & 7 == 3 { 2 } else { 0 };
                let b: u8 = kani::any();
                let r = qs.append_record(name, &f, p, &[b]);
                let ok = r.is_ok();
                std::mem::forget(r);
                assert!(ok == m[qi].exists, "C05: append succeeds iff the queue exists");
                if m[qi].exists {
                    assert!(m[qi].n < MAXREC); // harness sizing
                    let n = m[qi].n;
                    m[qi].pos[n] = p;
                    m[qi].byte[n] = b;
                    m[qi].n += 1;
                    m[qi].next = p + 1;
                    mutations += 1;
                }
            }
            4 | 5 => {
                let t = if op & 7 == 4 && m[qi].n > 0 { m[qi].pos[0] } else { m[qi].next + 3 };
                let r = qs.truncate(name, ..=t);
                assert!(r.is_some() == m[qi].exists, "C05: truncate reports a missing queue");
                if m[qi].exists {
                    let mut k = 0;
                    let mut i = 0;
                    while i < MAXREC {
                        if i < m[qi].n && m[qi].pos[i] <= t {
                            k += 1;
                        }
                        i += 1;
                    }
                    assert!(r == Some(k), "C05: eviction count");
                    let mut i = 0;
                    while i < MAXREC {
                        if i + k < MAXREC {
                            m[qi].pos[i] = m[qi].pos[i + k];
                            m[qi].byte[i] = m[qi].byte[i + k];
                        }
                        i += 1;
                    }
                    m[qi].n -= k;
                    if t + 1 > m[qi].next {
                        m[qi].next = t + 1;
                    }
                }
            }
            _ => {
                // replay of a RecordPosition entry: the queue exists afterwards, is empty, and
                // its next position is the recorded one -- whatever state it was in
                let p = if op & 7 == 6 { m[qi].next + 5 } else { 0 };
                qs.ack_position(name, p);
                m[qi].exists = true;
                m[qi].n = 0;
                m[qi].next = p;
                mutations += 1;
            }
        }
        observe(&qs, &m, meta);
        j += 1;
    }
    if mutations >= 2 {
        mark_nontrivial();
    }
}

fn queues_scripts<const ALPHA: usize, const K: usize, const S_LO: usize, const S_HI: usize>() {
    let alphabet: &[u8] = match ALPHA {
        // isolation / map semantics: create, delete, append, truncate on two queues
        0 => &[0, 1, 2, 4, 8, 9, 10, 12],
        // position records: ack_position on fresh / stale / non-empty queues, then appends
        1 => &[0, 2, 3, 5, 6, 7, 1, 8 + 2],
        _ => &[0],
    };
    let n = alphabet.len();
    let mut s = S_LO;
    while s <= S_HI {
        let mut ops = [0u8; K];
        let mut d = s;
        let mut j = 0;
        while j < K {
            ops[j] = alphabet[d % n];
            d /= n;
            j += 1;
        }
        queues_script::<K>(ops);
        s += 1;
    }
}

macro_rules! qshard {
    ($name:ident, $unwind:expr, $f:ident $(, $arg:expr)*) => {
        #[kani::proof]
        #[kani::unwind($unwind)]
        pub(crate) fn $name() {
            $f::<$({ $arg }),*>()
        }
    };
}

#[cfg(not(any(quickwit_oss_mrecordlog_verif_block16, quickwit_oss_mrecordlog_verif_block32)))]
mod queues_shards {
    use super::*;
    include!(concat!(env!("MRECORDLOG_VERIF_HARNESS_DIR"), "/shards_queues.rs"));
}
