// In-memory queue layer: MemQueue + RollingBuffer (real VecDeque, Vec, Arc) against a sequential
// reference model.  Properties: C04 (positions), C05 (sequential spec), C06 (file references),
// C16 (memory accounting).  No stub is involved in this file.

use std::ops::Bound;

use crate::error::AppendError;
use crate::mem::MemQueue;
use crate::rolling::FileNumber;
use crate::Record;

pub(crate) const POS_LIMIT: u64 = 1 << 62;
/// longest payload in the script alphabet
const ML: usize = 3;
/// most records a script can retain
const MAXR: usize = 4;
const NFILES: usize = 3;

// what to assert after every step
pub(crate) const CK_POS: u32 = 1; //   C04: positions
pub(crate) const CK_OBS: u32 = 2; //   C05: every read accessor vs the model
pub(crate) const CK_RANGE: u32 = 4; // C05: range() with symbolic bounds of every shape
pub(crate) const CK_FILES: u32 = 8; // C06: file-handle bookkeeping
pub(crate) const CK_SIZE: u32 = 16; // C16: size / capacity accounting

#[derive(Clone, Copy)]
struct RefRec {
    pos: u64,
    len: usize,
    bytes: [u8; ML],
    file: usize,
}

/// The sequential specification of one queue (property C05), plus the file each retained record
/// was appended under (C06).
struct RefQ {
    recs: [RefRec; MAXR],
    n: usize,
    next: u64,
}

impl RefQ {
    fn new(next: u64) -> Self {
        RefQ {
            recs: [RefRec {
                pos: 0,
                len: 0,
                bytes: [0; ML],
                file: 0,
            }; MAXR],
            n: 0,
            next,
        }
    }

    /// true = accepted
    fn append(&mut self, pos: u64, len: usize, bytes: [u8; ML], file: usize) -> bool {
        if pos < self.next {
            return false;
        }
        assert!(self.n < MAXR); // harness sizing
        self.recs[self.n] = RefRec {
            pos,
            len,
            bytes,
            file,
        };
        self.n += 1;
        self.next = pos + 1;
        true
    }

    /// removes exactly the records at or below `t`, reports how many, and moves an emptied queue
    /// forward to t+1
    fn truncate(&mut self, t: u64) -> usize {
        let mut k = 0;
        let mut i = 0;
        while i < MAXR {
            if i < self.n && self.recs[i].pos <= t {
                k += 1;
            }
            i += 1;
        }
        let mut i = 0;
        while i < MAXR {
            if i + k < MAXR {
                self.recs[i] = self.recs[i + k];
            }
            i += 1;
        }
        self.n -= k;
        if t + 1 > self.next {
            self.next = t + 1;
        }
        k
    }

    fn payload_bytes(&self) -> usize {
        let mut s = 0;
        let mut i = 0;
        while i < MAXR {
            if i < self.n {
                s += self.recs[i].len;
            }
            i += 1;
        }
        s
    }

    fn holds_file(&self, f: usize) -> bool {
        let mut i = 0;
        while i < MAXR {
            if i < self.n && self.recs[i].file == f {
                return true;
            }
            i += 1;
        }
        false
    }
}

fn payload_eq(real: &[u8], r: &RefRec) -> bool {
    if real.len() != r.len {
        return false;
    }
    let mut i = 0;
    while i < ML {
        if i < r.len && real[i] != r.bytes[i] {
            return false;
        }
        i += 1;
    }
    true
}

fn in_bounds(lo: &Bound<u64>, hi: &Bound<u64>, p: u64) -> bool {
    let a = match lo {
        Bound::Included(a) => p >= *a,
        Bound::Excluded(a) => p > *a,
        Bound::Unbounded => true,
    };
    let b = match hi {
        Bound::Included(b) => p <= *b,
        Bound::Excluded(b) => p < *b,
        Bound::Unbounded => true,
    };
    a && b
}

fn any_bound() -> Bound<u64> {
    let k: u8 = kani::any();
    let v: u64 = kani::any();
    if k == 0 {
        Bound::Unbounded
    } else if k == 1 {
        Bound::Included(v)
    } else {
        Bound::Excluded(v)
    }
}

/// size_of::<RecordMeta>() is private: measure it through the public accounting of a queue that
/// holds exactly one empty record.
fn meta_size() -> usize {
    let f = FileNumber::for_verif(0);
    let mut q = MemQueue::default();
    match q.append_record(&f, 5, &[]) {
        Ok(()) => {}
        Err(e) => {
            std::mem::forget(e);
            panic!("fresh queue rejected an append");
        }
    }
    q.size()
}

fn check_range(q: &MemQueue, m: &RefQ, lo: Bound<u64>, hi: Bound<u64>) {
    let mut it = q.range((lo, hi));
    let mut i = 0;
    while i < MAXR {
        if i < m.n && in_bounds(&lo, &hi, m.recs[i].pos) {
            match it.next() {
                Some(rec) => {
                    assert!(rec.position == m.recs[i].pos, "C05: range yields a wrong position");
                    assert!(payload_eq(&rec.payload, &m.recs[i]), "C05: range yields wrong payload bytes");
                }
                None => panic!("C05: range stops early"),
            }
        }
        i += 1;
    }
    assert!(it.next().is_none(), "C05: range yields an extra record");
}

fn check_state<const CK: u32>(q: &MemQueue, m: &RefQ, files: &[FileNumber; NFILES], others: &[&RefQ], meta: usize) {
    if CK & (CK_POS | CK_OBS) != 0 {
        assert!(q.next_position() == m.next, "C04/C05: next position differs from the model");
        let lp = q.last_position();
        if m.next == 0 {
            assert!(lp.is_none(), "C05: last_position of a never-used queue");
        } else {
            assert!(lp == Some(m.next - 1), "C05: last_position");
        }
    }
    if CK & CK_OBS != 0 {
        assert!(q.is_empty() == (m.n == 0), "C05: is_empty");
        match q.last_record() {
            None => assert!(m.n == 0, "C05: last_record missing"),
            Some(rec) => {
                assert!(m.n > 0, "C05: last_record of an empty queue");
                assert!(rec.position == m.recs[m.n - 1].pos, "C05: last_record position");
                assert!(payload_eq(&rec.payload, &m.recs[m.n - 1]), "C05: last_record payload");
            }
        }
        check_range(q, m, Bound::Unbounded, Bound::Unbounded);
    }
    if CK & CK_RANGE != 0 {
        check_range(q, m, any_bound(), any_bound());
    }
    if CK & CK_SIZE != 0 {
        let used = q.size();
        assert!(used == m.payload_bytes() + m.n * meta, "C16: size != retained payload + n * meta");
        assert!(used <= q.capacity(), "C16: size exceeds capacity");
        if m.n == 0 {
            assert!(used == 0, "C16: an emptied queue still accounts memory");
        }
    }
    if CK & CK_FILES != 0 {
        let mut f = 0;
        while f < NFILES {
            let mut held = m.holds_file(f);
            let mut o = 0;
            while o < others.len() {
                held = held || others[o].holds_file(f);
                o += 1;
            }
            assert!(files[f].can_be_deleted() == !held, "C06: file deletable <=> no retained record lives in it");
            f += 1;
        }
        // summary().file_number: file of the oldest retained record
        match q.first_file_number() {
            None => assert!(m.n == 0, "C06: first_file_number missing"),
            Some(n) => {
                assert!(m.n > 0, "C06: first_file_number of an empty queue");
                assert!(n == m.recs[0].file as u64, "C06: first_file_number is not the file of the oldest record");
            }
        }
    }
}

/// One script = K ops.  Positions and truncation targets are *concrete* (derived from the op code
/// and the model state; measured: a symbolic truncation point turns Vec::drain / VecDeque::drain
/// into symbolic-size memmoves and the formula exceeds 28 GB, B16), payload bytes are symbolic.
///
/// op code bits:  [0]    0 = truncate, 1 = append
///   append:      [2:1]  payload length 0..3
///                [4:3]  position: 0 = next, 1 = next+2 (gap), 2 = next-1 (must be rejected), 3 = next+1
///                [5]    the writer rolled to the next file before this append
///   truncate:    [3:1]  target: 0 = next (beyond last), 1 = next+3 (future), 2 = next-1 (= last),
///                       3 = first retained position, 4 = first-1, 5 = middle record, 6 = 0, 7 = first+1
///   both:        [6]    op goes to the second queue
fn run_script<const CK: u32, const K: usize>(ops: [u8; K], base: u64) {
    mark_case();
    let meta = if CK & CK_SIZE != 0 { meta_size() } else { 0 };
    let files = [
        FileNumber::for_verif(0),
        FileNumber::for_verif(1),
        FileNumber::for_verif(2),
    ];
    let mut q = [
        if base == 0 { MemQueue::default() } else { MemQueue::with_next_position(base) },
        MemQueue::with_next_position(base + 1000),
    ];
    let mut m = [RefQ::new(base), RefQ::new(base + 1000)];
    let mut cur_file = 0usize;
    let mut accepted_appends = 0;
    let mut j = 0;
    while j < K {
        let op = ops[j];
        let qi = ((op >> 6) & 1) as usize;
        if op & 1 == 0 {
            let next = m[qi].next;
            let first = if m[qi].n > 0 { m[qi].recs[0].pos } else { next };
            let t = match (op >> 1) & 7 {
                0 => next,
                1 => next + 3,
                2 => next.saturating_sub(1),
                3 => first,
                4 => first.saturating_sub(1),
                5 => if m[qi].n > 0 { m[qi].recs[m[qi].n / 2].pos } else { next.saturating_sub(2) },
                6 => 0,
                _ => first + 1,
            };
            let evicted = q[qi].truncate_head(..=t);
            let expect = m[qi].truncate(t);
            if CK & (CK_OBS | CK_POS) != 0 {
                assert!(evicted == expect, "C05: truncate reports a wrong eviction count");
            }
        } else {
            if (op >> 5) & 1 != 0 && cur_file + 1 < NFILES {
                cur_file += 1;
            }
            let len = ((op >> 1) & 3) as usize;
            let next = m[qi].next;
            let p = match (op >> 3) & 3 {
                0 => next,
                1 => next + 2,
                2 => next.saturating_sub(1),
                _ => next + 1,
            };
            let bytes: [u8; ML] = kani::any();
            let res = q[qi].append_record(&files[cur_file], p, &bytes[..len]);
            let accepted = m[qi].append(p, len, bytes, cur_file);
            match res {
                Ok(()) => assert!(accepted, "C04/C05: append at a position below the next position was accepted"),
                Err(AppendError::Past) => assert!(!accepted, "C05: append at a free position was rejected"),
                Err(e) => {
                    std::mem::forget(e);
                    panic!("C05: unexpected append error");
                }
            }
            if accepted {
                accepted_appends += 1;
            }
        }
        if qi == 0 {
            check_state::<CK>(&q[0], &m[0], &files, &[&m[1]], meta);
        } else {
            check_state::<CK>(&q[1], &m[1], &files, &[&m[0]], meta);
        }
        j += 1;
    }
    if accepted_appends >= 2 {
        mark_nontrivial();
    }
    // queues are dropped here: afterwards no file is referenced any more
    let [q0, q1] = q;
    drop(q0);
    drop(q1);
    if CK & CK_FILES != 0 {
        let mut f = 0;
        while f < NFILES {
            assert!(files[f].can_be_deleted(), "C06: a dropped queue still pins a file");
            f += 1;
        }
    }
}

const fn ap(len: u8, pos: u8, roll: u8, q: u8) -> u8 {
    1 | (len << 1) | (pos << 3) | (roll << 5) | (q << 6)
}
const fn tr(target: u8, q: u8) -> u8 {
    (target << 1) | (q << 6)
}

/// scripts S_LO..=S_HI (base-N digits) over the alphabet selected by ALPHA, starting at BASE
fn mem_scripts<const CK: u32, const ALPHA: usize, const K: usize, const BASE: u64, const S_LO: usize, const S_HI: usize>() {
    let alphabet: &[u8] = match ALPHA {
        // C04: appends next / gap / rejected / +1, truncations beyond, future, last, first
        0 => &[ap(1, 0, 0, 0), ap(1, 1, 0, 0), ap(1, 2, 0, 0), tr(0, 0), tr(1, 0), tr(2, 0), tr(3, 0)],
        // C05: payload lengths 0,1,2,3; truncation at every relative target
        1 => &[ap(0, 0, 0, 0), ap(1, 1, 0, 0), ap(2, 0, 0, 0), ap(3, 3, 0, 0), ap(1, 2, 0, 0),
               tr(0, 0), tr(1, 0), tr(2, 0), tr(3, 0), tr(4, 0), tr(5, 0), tr(6, 0), tr(7, 0)],
        // C05 quick subset
        2 => &[ap(1, 0, 0, 0), ap(3, 1, 0, 0), ap(0, 0, 0, 0), tr(3, 0), tr(5, 0), tr(1, 0)],
        // C06 one queue: append same file / after roll-over, truncations
        3 => &[ap(1, 0, 0, 0), ap(1, 0, 1, 0), tr(3, 0), tr(5, 0), tr(2, 0)],
        // C06 two queues sharing the files
        4 => &[ap(1, 0, 0, 0), ap(1, 0, 1, 0), tr(3, 0), tr(2, 0), ap(1, 0, 0, 1), ap(1, 0, 1, 1), tr(3, 1), tr(2, 1)],
        // C16: all payload lengths, truncations that shrink / empty
        5 => &[ap(0, 0, 0, 0), ap(1, 0, 0, 0), ap(2, 1, 0, 0), ap(3, 0, 0, 0), tr(3, 0), tr(5, 0), tr(2, 0), tr(1, 0)],
        6 => &[ap(0, 0, 0, 0), ap(2, 1, 0, 0), ap(3, 0, 0, 0), tr(3, 0), tr(5, 0), tr(1, 0)],
        _ => &[0],
    };
    let n = alphabet.len();
    let mut s = S_LO;
    while s <= S_HI {
        let mut ops = [0u8; K];
        let mut d = s;
        let mut j = 0;
        while j < K {
            ops[j] = alphabet[d % n];
            d /= n;
            j += 1;
        }
        run_script::<CK, K>(ops, BASE);
        s += 1;
    }
}

/// ring wrap: force the VecDeque to wrap so that all three branches of RollingBuffer::get_range
/// (left slice, right slice, straddling copy) are exercised, bytes symbolic
fn mem_ring_wrap<const DUMMY: usize>() {
    mark_case();
    mark_nontrivial();
    let f = FileNumber::for_verif(0);
    let b: [u8; 13] = kani::any();
    let mut q = MemQueue::with_next_position(10);
    // 3 x 3 bytes (capacity 8 -> 16); truncating the first record shrinks the ring to 10 with the
    // live bytes at 3..9; the next 3 bytes land on 9,0,1 (straddle), one more byte on 2 (right part)
    q.append_record(&f, 10, &b[0..3]).unwrap_or_else(|e| std::mem::forget(e));
    q.append_record(&f, 11, &b[3..6]).unwrap_or_else(|e| std::mem::forget(e));
    q.append_record(&f, 12, &b[6..9]).unwrap_or_else(|e| std::mem::forget(e));
    assert!(q.truncate_head(..=10) == 1);
    q.append_record(&f, 13, &b[9..12]).unwrap_or_else(|e| std::mem::forget(e));
    q.append_record(&f, 14, &b[12..13]).unwrap_or_else(|e| std::mem::forget(e));
    let mut it = q.range(..);
    let r = it.next().unwrap();
    assert!(r.position == 11 && r.payload.len() == 3, "C05: wrap rec 11");
    assert!(r.payload[0] == b[3] && r.payload[1] == b[4] && r.payload[2] == b[5], "C05: wrap rec 11 bytes");
    let r = it.next().unwrap();
    assert!(r.position == 12 && r.payload.len() == 3, "C05: wrap rec 12");
    assert!(r.payload[0] == b[6] && r.payload[1] == b[7] && r.payload[2] == b[8], "C05: wrap rec 12 bytes");
    let r = it.next().unwrap();
    assert!(r.position == 13 && r.payload.len() == 3, "C05: wrap rec 13");
    assert!(r.payload[0] == b[9] && r.payload[1] == b[10] && r.payload[2] == b[11], "C05: wrap rec 13 bytes");
    let straddles = matches!(r.payload, std::borrow::Cow::Owned(_));
    let r = it.next().unwrap();
    assert!(r.position == 14 && r.payload.len() == 1 && r.payload[0] == b[12], "C05: wrap rec 14");
    assert!(it.next().is_none());
    let last = q.last_record().unwrap();
    assert!(last.position == 14 && last.payload[0] == b[12]);
    // one range query that starts inside the ring
    let mut it = q.range(13..=13);
    let r = it.next().unwrap();
    assert!(r.position == 13 && r.payload[2] == b[11]);
    assert!(it.next().is_none());
    kani::cover!(straddles, "a record straddles the ring wrap (re-assembled copy)");
}

/// range() with *symbolic* bounds of every shape (.., a.., ..b, ..=b, a..b, a..=b, (Excluded a, ..))
/// on a queue of N records at concrete positions BASE, BASE+1, BASE+3, BASE+4 (one gap), payload
/// lengths 1,0,2,3, bytes symbolic.  N_TRUNC > 0 first removes that many records so that the
/// payload ring does not start at offset 0.
fn mem_range_sym<const N: usize, const N_TRUNC: usize, const BASE: u64>() {
    mark_case();
    mark_nontrivial();
    let f = FileNumber::for_verif(0);
    let offs = [0u64, 1, 3, 4];
    let lens = [1usize, 0, 2, 3];
    let mut q = MemQueue::with_next_position(BASE);
    let mut m = RefQ::new(BASE);
    let mut i = 0;
    while i < N {
        let bytes: [u8; ML] = kani::any();
        match q.append_record(&f, BASE + offs[i], &bytes[..lens[i]]) {
            Ok(()) => {}
            Err(e) => {
                std::mem::forget(e);
                panic!("append rejected");
            }
        }
        assert!(m.append(BASE + offs[i], lens[i], bytes, 0));
        i += 1;
    }
    if N_TRUNC > 0 {
        let t = BASE + offs[N_TRUNC - 1];
        assert!(q.truncate_head(..=t) == m.truncate(t));
    }
    let lo = any_bound();
    let hi = any_bound();
    check_range(&q, &m, lo, hi);
    kani::cover!(matches!(lo, Bound::Excluded(_)) && matches!(hi, Bound::Included(_)), "(Excluded, Included) bounds");
}

/// C16/C05 with unequal payload sizes: small truncations out of a larger buffer (the shrink
/// heuristics of RollingBuffer::truncate_head look at ratios, which 3-byte payloads cannot reach).
/// Lengths LENS = [l0, l1, l2, l3] (0 = record absent), positions consecutive from 7; after the
/// appends the first N_TRUNC records are truncated one by one; after every step size(), the
/// retained records and their bytes are compared with the straightforward expectation.
fn mem_big<const L0: usize, const L1: usize, const L2: usize, const L3: usize>() {
    mark_case();
    mark_nontrivial();
    const BIG: usize = 24;
    let meta = meta_size();
    let f = FileNumber::for_verif(0);
    let lens = [L0, L1, L2, L3];
    // flat on purpose (Kani 0.68 mis-models slices of rows of a local nested array, DESIGN B22)
    let data: [u8; 4 * BIG] = kani::any();
    let mut q = MemQueue::with_next_position(7);
    let mut n = 0;
    while n < 4 && lens[n] > 0 {
        match q.append_record(&f, 7 + n as u64, &data[n * BIG..n * BIG + lens[n]]) {
            Ok(()) => {}
            Err(e) => {
                std::mem::forget(e);
                panic!("append rejected");
            }
        }
        n += 1;
    }
    let mut first = 0; // index of the first retained record
    loop {
        // expectation
        let mut bytes = 0;
        let mut i = first;
        while i < n {
            bytes += lens[i];
            i += 1;
        }
        assert!(q.size() == bytes + (n - first) * meta, "C16: size != retained payload + n * meta");
        assert!(q.size() <= q.capacity(), "C16: size exceeds capacity");
        let mut it = q.range(..);
        let mut i = first;
        while i < n {
            match it.next() {
                Some(r) => {
                    assert!(r.position == 7 + i as u64, "C05: position after truncation");
                    assert!(r.payload.len() == lens[i], "C05: payload length after truncation");
                    let mut k = 0;
                    while k < lens[i] {
                        assert!(r.payload[k] == data[i * BIG + k], "C05: payload bytes after truncation");
                        k += 1;
                    }
                }
                None => panic!("C05: record lost by truncation"),
            }
            i += 1;
        }
        assert!(it.next().is_none(), "C05: extra record");
        drop(it);
        if first >= n {
            break;
        }
        let evicted = q.truncate_head(..=(7 + first as u64));
        assert!(evicted == 1, "C05: eviction count");
        first += 1;
    }
    assert!(q.size() == 0, "C16: emptied queue accounts memory");
}

macro_rules! mshard {
    ($name:ident, $unwind:expr, $f:ident $(, $arg:expr)*) => {
        #[kani::proof]
        #[kani::unwind($unwind)]
        pub(crate) fn $name() {
            $f::<$({ $arg }),*>()
        }
    };
}
macro_rules! mshard_mf {
    ($name:ident, $unwind:expr, $f:ident $(, $arg:expr)*) => {
        #[kani::proof]
        #[kani::unwind($unwind)]
        pub(crate) fn $name() {
            $f::<$({ $arg }),*>();
            must_fail_witness();
        }
    };
}

#[cfg(not(any(quickwit_oss_mrecordlog_verif_block16, quickwit_oss_mrecordlog_verif_block32)))]
mod mem_shards {
    use super::*;
    mshard!(c05_ring_wrap_q, 16, mem_ring_wrap, 0);
    mshard!(c16_big_q_1_16, 26, mem_big, 1, 16, 0, 0);
    mshard!(c16_big_q_2_20_3, 26, mem_big, 2, 20, 3, 0);
    mshard!(c16_big_q_1_1_1_24, 26, mem_big, 1, 1, 1, 24);
    #[cfg(verif_thorough)]
    mshard!(c16_big_t_24_1_1_1, 26, mem_big, 24, 1, 1, 1);
    #[cfg(verif_thorough)]
    mshard!(c16_big_t_3_17_2_9, 26, mem_big, 3, 17, 2, 9);
    mshard!(c05_big_q_1_18_2, 26, mem_big, 1, 18, 2, 0);
    mshard!(c05_range_sym_q0, 8, mem_range_sym, 0, 0, 5);
    mshard!(c05_range_sym_q1, 8, mem_range_sym, 1, 0, 5);
    mshard!(c05_range_sym_q2, 8, mem_range_sym, 2, 0, 5);
    mshard!(c05_range_sym_q3, 8, mem_range_sym, 3, 1, 5);
    #[cfg(verif_thorough)]
    mshard!(c05_range_sym_t4, 8, mem_range_sym, 4, 0, 5);
    #[cfg(verif_thorough)]
    mshard!(c05_range_sym_t4b, 8, mem_range_sym, 4, 2, 0);
    include!(concat!(env!("MRECORDLOG_VERIF_HARNESS_DIR"), "/shards_mem.rs"));
}
