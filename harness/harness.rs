// Kani proof harnesses for quickwit-oss/mrecordlog.  This file lives in /verif and is compiled
// *inside* the crate (hook H1 in src/lib.rs) so that it can reach crate-private items.
// Sub-files are pulled in with include! so that each property family stays readable.

#[allow(dead_code, unused_imports, unused_variables, unused_mut, clippy::all)]
mod common {
    include!(concat!(env!("MRECORDLOG_VERIF_HARNESS_DIR"), "/common.rs"));
}

#[allow(dead_code, unused_imports, unused_variables, unused_mut, clippy::all)]
mod stream {
    use super::common::*;
    include!(concat!(env!("MRECORDLOG_VERIF_HARNESS_DIR"), "/stream.rs"));
}

#[allow(dead_code, unused_imports, unused_variables, unused_mut, clippy::all)]
mod mem {
    use super::common::*;
    include!(concat!(env!("MRECORDLOG_VERIF_HARNESS_DIR"), "/mem.rs"));
}

#[allow(dead_code, unused_imports, unused_variables, unused_mut, clippy::all)]
mod fname {
    use super::common::*;
    include!(concat!(env!("MRECORDLOG_VERIF_HARNESS_DIR"), "/fname.rs"));
}

#[allow(dead_code, unused_imports, unused_variables, unused_mut, unused_assignments, clippy::all)]
mod damage {
    use super::common::*;
    use super::stream::{blocks_for, same_bytes};
    include!(concat!(env!("MRECORDLOG_VERIF_HARNESS_DIR"), "/damage.rs"));
}

#[allow(dead_code, unused_imports, unused_variables, unused_mut, unused_assignments, clippy::all)]
mod record_h {
    use super::common::*;
    include!(concat!(env!("MRECORDLOG_VERIF_HARNESS_DIR"), "/record.rs"));
}

#[allow(dead_code, unused_imports, unused_variables, unused_mut, unused_assignments, clippy::all)]
mod tracker {
    use super::common::*;
    include!(concat!(env!("MRECORDLOG_VERIF_HARNESS_DIR"), "/tracker.rs"));
}

#[allow(dead_code, unused_imports, unused_variables, unused_mut, unused_assignments, clippy::all)]
mod queues_h {
    use super::common::*;
    include!(concat!(env!("MRECORDLOG_VERIF_HARNESS_DIR"), "/queues.rs"));
}

#[allow(dead_code, unused_imports, unused_variables, unused_mut, unused_assignments, clippy::all)]
mod log_h {
    use super::common::*;
    include!(concat!(env!("MRECORDLOG_VERIF_HARNESS_DIR"), "/log.rs"));
}
