// Torn-write and damage harnesses at the WAL-stream layer (C02, C08, C09, C12, and the
// termination half of C10).  Real code executed: RecordWriter / FrameWriter (to produce the
// genuine stream), FrameReader / RecordReader (to recover it).
//
// Every case fixes *concretely*: the entry lengths, which frame is hit, and what kind of damage it
// suffers.  Symbolic: the payload bytes of all entries and the garbage written over a payload.
// The checksum oracle (common.rs) makes the outcome of `Header::check` concrete: it fails exactly
// for the frame whose bytes the harness altered (ideal checksum).  Header bytes are only ever
// altered to concrete values (B15: a symbolic checksum byte makes the "all-zero header?" test and
// everything after it symbolic).

use crate::error::ReadRecordError;
use crate::frame::{FrameType, FrameWriter};
use crate::recordlog::{RecordReader, RecordWriter};

const NE: usize = 3; // entries per stream
const MAXF: usize = 24; // frames per stream (harness sizing)
const PL: usize = 3 * B; // longest entry

#[derive(Clone, Copy)]
struct Frame {
    off: usize, // offset of the header
    len: usize, // payload length
    entry: usize,
    ty: u8,
}

struct Layout {
    frames: [Frame; MAXF],
    n: usize,
    entry_end: [usize; NE], // cursor after each entry
    end: usize,
}

/// Reference layout of `lens` written back to back from cursor 0 (independent of the writer).
fn ref_layout(lens: &[usize; NE]) -> Layout {
    let mut frames = [Frame {
        off: 0,
        len: 0,
        entry: 0,
        ty: 0,
    }; MAXF];
    let mut n = 0;
    let mut cur = 0usize;
    let mut entry_end = [0usize; NE];
    let mut e = 0;
    while e < NE {
        let mut left = lens[e];
        let mut first = true;
        loop {
            let rem = B - cur % B;
            if rem < H {
                cur += rem;
                continue;
            }
            let take = if left < rem - H { left } else { rem - H };
            left -= take;
            let last = left == 0;
            let ty = match (first, last) {
                (true, true) => 1,
                (true, false) => 2,
                (false, false) => 3,
                (false, true) => 4,
            };
            assert!(n < MAXF); // harness sizing
            frames[n] = Frame {
                off: cur,
                len: take,
                entry: e,
                ty,
            };
            n += 1;
            cur += H + take;
            first = false;
            if last {
                break;
            }
        }
        entry_end[e] = cur;
        e += 1;
    }
    Layout {
        frames,
        n,
        entry_end,
        end: cur,
    }
}

/// Writes the three entries through the real writer and cross-checks the reference layout against
/// what the writer produced (cursor after each entry, header bytes of every frame).
fn write_stream(lens: &[usize; NE], p: &[[u8; PL]; NE], lay: &Layout) -> [u8; DEV] {
    crc_writer_side();
    let mut w = new_writer(ArrW::new());
    let mut e = 0;
    while e < NE {
        let n = w.write_record(Raw(&p[e][..lens[e]])).unwrap();
        assert!(w.get_underlying_wrt().cursor == lay.entry_end[e], "writer cursor differs from the reference layout");
        e += 1;
    }
    let data = w.get_underlying_wrt().buf;
    let mut f = 0;
    while f < lay.n {
        let fr = lay.frames[f];
        assert!(data[fr.off + 4] as usize == fr.len && data[fr.off + 5] == 0, "frame length field");
        assert!(data[fr.off + 6] == fr.ty, "frame type field");
        f += 1;
    }
    data
}

struct Outcome {
    delivered: [bool; NE],
    count: usize,
    calls: usize,
    corruptions: usize,
    ended: bool,
}

/// Recovers `image` the way `MultiRecordLog::open_with_prefs` drives the reader -- errors are
/// skipped, `Ok(None)` ends the replay -- and checks that what is delivered is an ordered
/// sub-sequence of the written entries, byte for byte (entry lengths are pairwise distinct, so an
/// entry is identified by its length).
///
/// B17: `ReadRecordError` keeps `Corruption` in the pointer niche of `io::Error`; Kani writes that
/// niche through a punned pointer and CBMC cannot constant-fold the read, so the *discriminant of
/// every value returned by `read_record` is symbolic for symex* even though the reader's own state
/// is concrete.  The harness therefore (i) calls the reader a fixed, concrete number of times
/// (calls past the end are idempotent `Ok(None)`), (ii) classifies each result without letting
/// control flow depend on it for more than one assignment, (iii) never drops an error value, and
/// (iv) looks at the delivered bytes through `RecordReader::record()` -- the reader's own buffer,
/// whose length is concrete -- instead of through the returned value.  The solver, not symex,
/// then decides which classification is the real one.
fn recover(image: [u8; DEV], nb: usize, n_frames: usize, fail_mask: u64, lens: &[usize; NE], p: &[[u8; PL]; NE], call_limit: usize) -> Outcome {
    crc_reader_side(fail_mask);
    let mut r = RecordReader::open(ArrR::new(image, nb));
    let mut out = Outcome {
        delivered: [false; NE],
        count: 0,
        calls: 0,
        corruptions: 0,
        ended: false,
    };
    let mut next_k = 0usize;
    let mut ended = false;
    // progress bound (C10): every call consumes at least one frame, drops a block, or ends the log
    let full = n_frames + nb + 2;
    let max_calls = if call_limit < full { call_limit } else { full };
    let mut i = 0;
    while i < max_calls {
        let res = r.read_record::<Raw>();
        let kind: u8 = match &res {
            Ok(Some(_)) => 0,
            Ok(None) => 1,
            Err(e) => {
                if matches!(e, ReadRecordError::Corruption) {
                    2
                } else {
                    3
                }
            }
        };
        std::mem::forget(res);
        assert!(kind != 3, "I/O error from an in-memory device");
        let cur: &[u8] = match r.record::<Raw>() {
            Some(raw) => raw.0,
            None => &[],
        };
        let mut kc = 0;
        while kc < NE && lens[kc] != cur.len() {
            kc += 1;
        }
        let eq = kc < NE && same_bytes(cur, &p[kc][..lens[kc]]);
        if kind == 0 {
            assert!(!ended, "C10: an entry was delivered after the end of the log was reported");
            assert!(kc < NE && kc >= next_k, "C08/C12: recovered an entry that is not one of the written entries (wrong length / out of order / duplicate)");
            assert!(eq, "C08/C12: recovered entry differs from the written bytes");
            if kc < NE {
                out.delivered[kc] = true;
            }
            out.count += 1;
            next_k = kc + 1;
        } else if kind == 1 {
            ended = true;
        } else {
            out.corruptions += 1;
        }
        if !ended {
            out.calls += 1;
        }
        i += 1;
    }
    if call_limit >= full {
        assert!(ended, "C10: the reader did not reach the end of the log within the progress bound");
    }
    out.ended = ended;
    out
}

// ---------------------------------------------------------------------------------------------
// damage kinds
// ---------------------------------------------------------------------------------------------
pub(crate) const D_PAYLOAD: u8 = 0; // payload bytes overwritten by symbolic garbage
pub(crate) const D_CRC: u8 = 1; //     checksum bytes altered (4 concrete variants)
pub(crate) const D_TYPE: u8 = 2; //    type byte -> another valid type (3 variants)
pub(crate) const D_TYPE_BAD: u8 = 3; // type byte -> invalid (3 variants)
pub(crate) const D_LEN: u8 = 4; //     length field altered (5 variants); concrete payload patterns
pub(crate) const D_HDR_ZERO: u8 = 5; // header zero-filled
pub(crate) const D_FRAME_ZERO: u8 = 6; // whole frame zero-filled

fn variants(kind: u8) -> usize {
    match kind {
        D_PAYLOAD => 1,
        D_CRC => 4,
        D_TYPE => 3,
        D_TYPE_BAD => 3,
        D_LEN => 5,
        _ => 1,
    }
}

/// One damaged-frame case.  EXACT = assert the C09 outcome (exactly the hit entry is lost) for the
/// kinds that only invalidate the checksum of one frame.
fn damage_case(lens: &[usize; NE], f: usize, kind: u8, var: usize, p: &[[u8; PL]; NE], g: &[u8; B]) {
    let lay = ref_layout(lens);
    if f >= lay.n {
        return;
    }
    let fr = lay.frames[f];
    if kind == D_PAYLOAD && fr.len == 0 {
        return;
    }
    mark_case();
    if fr.ty != 1 || fr.entry + 1 < NE {
        mark_nontrivial(); // hit frame belongs to a multi-frame entry or is followed by other entries
    }
    let mut img = write_stream(lens, p, &lay);
    if kind == D_LEN {
        // B19: payload bytes travel through the 10 000-byte Vec of RecordWriter, which is not
        // field-sensitive, so even constant payloads are opaque to symex afterwards.  Re-assert
        // and re-write them in place so that a misaligned header parse stays concrete.
        let mut f2 = 0;
        while f2 < lay.n {
            let fr2 = lay.frames[f2];
            let mut i = 0;
            while i < fr2.len {
                let want = p[fr2.entry][0];
                assert!(img[fr2.off + H + i] == want, "writer stored a different payload byte");
                img[fr2.off + H + i] = want;
                i += 1;
            }
            f2 += 1;
        }
    }
    let mut fail_mask = 0u64;
    let mut exact = false;
    match kind {
        D_PAYLOAD => {
            let mut i = 0;
            while i < fr.len {
                img[fr.off + H + i] = g[i];
                i += 1;
            }
            fail_mask = 1 << f;
            exact = true;
        }
        D_CRC => {
            match var {
                0 => img[fr.off] ^= 0x01,
                1 => img[fr.off + 3] ^= 0x80,
                2 => {
                    img[fr.off] = 0;
                    img[fr.off + 1] = 0;
                    img[fr.off + 2] = 0;
                    img[fr.off + 3] = 0;
                }
                _ => {
                    img[fr.off] = 0xff;
                    img[fr.off + 1] = 0xff;
                    img[fr.off + 2] = 0xff;
                    img[fr.off + 3] = 0xff;
                }
            }
            exact = true;
        }
        D_TYPE => {
            img[fr.off + 6] = ((fr.ty - 1 + (var as u8) + 1) % 4) + 1;
            // the checksum covers the type byte: K(len, type') != K(len, type) = stored
            exact = true;
        }
        D_TYPE_BAD => {
            img[fr.off + 6] = match var {
                0 => 0,
                1 => 5,
                _ => 0xff,
            };
        }
        D_LEN => {
            let nl: usize = match var {
                0 => 0,
                1 => fr.len.wrapping_sub(1) & 0xffff,
                2 => fr.len + 1,
                3 => B,
                _ => 0xffff,
            };
            if nl == fr.len {
                return;
            }
            img[fr.off + 4] = (nl & 0xff) as u8;
            img[fr.off + 5] = (nl >> 8) as u8;
            // K(len', type) != K(len, type) = stored: the check fails by itself.  What the reader
            // parses from misaligned bytes afterwards is concrete (payload patterns), and genuine
            // frames it re-synchronises on are authentic by construction.
        }
        D_HDR_ZERO => {
            let mut i = 0;
            while i < H {
                img[fr.off + i] = 0;
                i += 1;
            }
        }
        _ => {
            let mut i = 0;
            while i < H + fr.len {
                img[fr.off + i] = 0;
                i += 1;
            }
        }
    }
    // B18: when a frame fails while an entry is being assembled, `within_record` becomes
    // ite(<unfoldable union read>, ..) for symex; if the next frame the reader sees is again a
    // Middle/Last frame the reader's cursor forks and the query explodes (> 10 min per case).
    // Those cases are cut after the call that follows the failure: the entry after the hit one
    // must then already have been delivered (or nothing, if the hit entry is the last).
    let drops_block = kind == D_TYPE_BAD || (kind == D_LEN && fr.off % B + H + (img[fr.off + 4] as usize | ((img[fr.off + 5] as usize) << 8)) > B);
    let mut next_seen_ty = 1u8; // what follows the failure: treat "nothing" as a First frame
    let mut g2 = f + 1;
    while g2 < lay.n {
        if !drops_block || lay.frames[g2].off / B > fr.off / B {
            next_seen_ty = lay.frames[g2].ty;
            break;
        }
        g2 += 1;
    }
    let in_entry = fr.ty == 3 || fr.ty == 4;
    let forks = in_entry && (next_seen_ty == 3 || next_seen_ty == 4 || kind == D_LEN);
    // the failing call is call number `fr.entry` (one call per intact entry before it)
    let call_limit = if forks { fr.entry + 2 } else { usize::MAX };
    let out = recover(img, blocks_for(lay.end), lay.n, fail_mask, lens, p, call_limit);
    if forks {
        let mut k = 0;
        while k < NE {
            if k < fr.entry {
                assert!(out.delivered[k], "C09: an entry before the damaged one was lost");
            } else if k == fr.entry {
                assert!(!out.delivered[k], "C08/C09/C12: an entry was recovered although one of its frames was damaged");
            } else if k == fr.entry + 1 && exact {
                assert!(out.delivered[k], "C09: the entry after the damaged one was lost");
            }
            k += 1;
        }
    } else if exact {
        let mut k = 0;
        while k < NE {
            assert!(out.delivered[k] == (k != fr.entry), "C09: a damaged payload/checksum must cost exactly the entry it hits");
            k += 1;
        }
        assert!(out.corruptions == 1, "C09: exactly one corruption is reported for one bad frame");
    } else {
        assert!(!out.delivered[fr.entry], "C08/C12: an entry was recovered although one of its frames was destroyed");
    }
}

/// all frames x all variants of the kinds in KINDS (bit mask) for one length triple
fn damage_sweep<const L0: usize, const L1: usize, const L2: usize, const KINDS: u32, const F_LO: usize, const F_HI: usize>() {
    damage_sweep_v::<L0, L1, L2, KINDS, F_LO, F_HI, { usize::MAX }>()
}

fn damage_sweep_v<const L0: usize, const L1: usize, const L2: usize, const KINDS: u32, const F_LO: usize, const F_HI: usize, const VAR_ONLY: usize>() {
    let lens = [L0, L1, L2];
    let concrete = KINDS & (1 << D_LEN) != 0;
    let mut p: [[u8; PL]; NE] = kani::any();
    if concrete {
        // a damaged length makes the reader parse payload bytes as headers: keep them concrete
        // (0x01 = a valid type with an over-long length, 0x00 = end marker, 0xff = invalid type)
        let pat = [0x01u8, 0x00, 0xff];
        let mut e = 0;
        while e < NE {
            let mut i = 0;
            while i < PL {
                p[e][i] = pat[e];
                i += 1;
            }
            e += 1;
        }
    }
    let g: [u8; B] = kani::any();
    let mut f = F_LO;
    while f <= F_HI {
        let mut kind = 0u8;
        while kind <= D_FRAME_ZERO {
            if KINDS & (1 << kind) != 0 {
                let mut v = 0;
                while v < variants(kind) {
                    if VAR_ONLY == usize::MAX || VAR_ONLY == v {
                        damage_case(&lens, f, kind, v, &p, &g);
                    }
                    v += 1;
                }
            }
            kind += 1;
        }
        f += 1;
    }
}

// ---------------------------------------------------------------------------------------------
// torn writes: every byte cut of the stream
// ---------------------------------------------------------------------------------------------
fn torn_sweep<const L0: usize, const L1: usize, const L2: usize, const C_LO: usize, const C_HI: usize>() {
    let lens = [L0, L1, L2];
    let p: [[u8; PL]; NE] = kani::any();
    let lay = ref_layout(&lens);
    let full = write_stream(&lens, &p, &lay);
    let mut c = C_LO;
    while c <= C_HI && c <= lay.end {
        mark_case();
        // image after a process crash: the first c bytes reached the (zero-prefilled) file
        let mut img = [0u8; DEV];
        let mut i = 0;
        while i < c {
            img[i] = full[i];
            i += 1;
        }
        // the torn frame, if its header is complete and its payload is not: ideal checksum.
        // (If the missing tail happened to be zeros the image equals the one of a later cut,
        // which is a case of its own.)
        let mut fail_mask = 0u64;
        let mut f = 0;
        while f < lay.n {
            let fr = lay.frames[f];
            if c >= fr.off + H && c < fr.off + H + fr.len {
                fail_mask = 1 << f;
                mark_nontrivial();
            }
            f += 1;
        }
        // entries completely written before the cut
        let mut j = 0;
        while j < NE && lay.entry_end[j] <= c {
            j += 1;
        }
        let out = recover(img, blocks_for(lay.end), lay.n, fail_mask, &lens, &p, usize::MAX);
        let mut k = 0;
        while k < NE {
            assert!(out.delivered[k] == (k < j), "C02: a cut stream must recover exactly the entries completed before the cut");
            k += 1;
        }
        c += 1;
    }
}

// ---------------------------------------------------------------------------------------------
// crash between two frames, recovery, and the writer resuming behind the recovered prefix
// (C02: "the recovered log is fully usable")
// ---------------------------------------------------------------------------------------------
/// For every frame end c of the stream: image = first c bytes (a process crash exactly between two
/// device writes), then a *new* entry of NEWLEN symbolic bytes is written by a real writer that
/// resumes at c -- where the reader stopped, which is what `RecordReader::into_writer` does for a
/// log that ends on a frame boundary -- and the whole image is recovered: the entries completed
/// before c, then the new entry, byte for byte; the orphan frames of the interrupted entry are
/// never delivered and never spliced into the new entry.
fn resume_sweep<const L0: usize, const L1: usize, const L2: usize, const F_LO: usize, const F_HI: usize, const NEWLEN: usize>() {
    let lens = [L0, L1, L2];
    let p: [[u8; PL]; NE] = kani::any();
    let q: [u8; PL] = kani::any();
    let lay = ref_layout(&lens);
    let full = write_stream(&lens, &p, &lay);
    let mut f = F_LO;
    while f <= F_HI && f < lay.n {
        let fr = lay.frames[f];
        let c = fr.off + H + fr.len;
        // first entry that is not complete at c: its slot is taken by the new entry
        let mut slot = 0;
        while slot < NE && lay.entry_end[slot] <= c {
            slot += 1;
        }
        if slot < NE {
            mark_case();
            if fr.entry == slot {
                mark_nontrivial(); // orphan frames of an interrupted multi-frame entry stay behind
            }
            let mut img = [0u8; DEV];
            let mut i = 0;
            while i < c {
                img[i] = full[i];
                i += 1;
            }
            crc_writer_side();
            let mut w = new_writer(ArrW {
                buf: img,
                cursor: c,
                num_writes: 0,
            });
            w.write_record(Raw(&q[..NEWLEN])).unwrap();
            let end2 = w.get_underlying_wrt().cursor;
            let img2 = w.get_underlying_wrt().buf;
            let mut lens2 = lens;
            let mut p2 = p;
            lens2[slot] = NEWLEN;
            p2[slot] = q;
            let mut k = slot + 1;
            while k < NE {
                lens2[k] = usize::MAX; // never written
                k += 1;
            }
            let out = recover(img2, blocks_for(end2), lay.n + 5, 0, &lens2, &p2, usize::MAX);
            let mut k = 0;
            while k < NE {
                assert!(out.delivered[k] == (k <= slot), "C02: after a crash between two frames and a resumed append, exactly the completed entries and the new entry are recovered");
                k += 1;
            }
            assert!(out.corruptions == 0, "C02: an orphan frame must not be reported as corruption");
        }
        f += 1;
    }
}

macro_rules! dshard {
    ($name:ident, $unwind:expr, $f:ident $(, $arg:expr)*) => {
        #[kani::proof]
        #[kani::unwind($unwind)]
        #[kani::stub(crate::frame::header::crc32, crc_stub)]
        pub(crate) fn $name() {
            $f::<$({ $arg }),*>()
        }
    };
}
macro_rules! dshard_mf {
    ($name:ident, $unwind:expr, $f:ident $(, $arg:expr)*) => {
        #[kani::proof]
        #[kani::unwind($unwind)]
        #[kani::stub(crate::frame::header::crc32, crc_stub)]
        pub(crate) fn $name() {
            $f::<$({ $arg }),*>();
            must_fail_witness();
        }
    };
}

pub(crate) const K_CRCFAIL: u32 = (1 << D_PAYLOAD) | (1 << D_CRC);
pub(crate) const K_HEADER: u32 = (1 << D_TYPE) | (1 << D_TYPE_BAD) | (1 << D_HDR_ZERO) | (1 << D_FRAME_ZERO);
pub(crate) const K_LEN: u32 = 1 << D_LEN;

#[cfg(quickwit_oss_mrecordlog_verif_block16)]
mod dmg_b16 {
    use super::*;
    include!(concat!(env!("MRECORDLOG_VERIF_HARNESS_DIR"), "/shards_damage.rs"));
}

#[cfg(all(quickwit_oss_mrecordlog_verif_block32, verif_thorough))]
mod dmg_b32 {
    use super::*;
    include!(concat!(env!("MRECORDLOG_VERIF_HARNESS_DIR"), "/shards_damage32.rs"));
}
